#!/usr/bin/env python3
"""Run the registered checks against a seeded change.

  seeded.py DIR [--tier quick|thorough] [--props C01,C02,...] [--all]

DIR holds patch.diff and meta.json ({"property": "Cxx", ...}).  The patch is applied to /repo's
working tree (git apply), the quick command of the property's check (or of the listed ones) is run,
and the patch is reverted (git checkout -- .) whatever happens.  Prints one line per check:
    SEEDED <dir> <prop> DETECTED|MISSED (exit status, first VIOLATION line)
"""
import json
import os
import subprocess
import sys

VERIF = os.path.dirname(os.path.dirname(os.path.abspath(__file__)))


def main():
    a = sys.argv[1:]
    d = os.path.abspath(a[0])
    tier = a[a.index("--tier") + 1] if "--tier" in a else "quick"
    meta = json.load(open(os.path.join(d, "meta.json")))
    props = [meta["property"]]
    if "--props" in a:
        props = a[a.index("--props") + 1].split(",")
    if "--all" in a:
        props = ["C%02d" % i for i in range(1, 21)]
    patch = os.path.join(d, "patch.diff")
    st = subprocess.run(["git", "-C", "/repo", "status", "--porcelain", "--untracked-files=no"], stdout=subprocess.PIPE, text=True).stdout
    if st.strip():
        print("refusing: /repo has uncommitted changes to tracked files")
        return 2
    r = subprocess.run(["git", "-C", "/repo", "apply", "--3way", patch], stdout=subprocess.PIPE, stderr=subprocess.STDOUT, text=True)
    if r.returncode != 0:
        r = subprocess.run(["git", "-C", "/repo", "apply", patch], stdout=subprocess.PIPE, stderr=subprocess.STDOUT, text=True)
    if r.returncode != 0:
        print("patch does not apply:", r.stdout[-500:])
        subprocess.run(["git", "-C", "/repo", "checkout", "--", "."])
        return 2
    results = {}
    try:
        for p in props:
            env = dict(os.environ)
            env.setdefault("VERIF_SEED", "1")
            env["MVH_EVIDENCE_DIR"] = os.path.join(VERIF, "build", "seeded-evidence")
            rr = subprocess.run([sys.executable, os.path.join(VERIF, "verif.py"), "check", p, "--tier", tier],
                                stdout=subprocess.PIPE, stderr=subprocess.STDOUT, text=True, cwd=VERIF, env=env)
            viol = [l for l in rr.stdout.splitlines() if l.startswith("VIOLATION")]
            oracle = [l.strip() for l in rr.stdout.splitlines() if "failing oracle" in l]
            det = rr.returncode == 1 and bool(viol)
            results[p] = {"detected": det, "exit": rr.returncode, "violation": viol[:1], "oracle": oracle[:1]}
            print("SEEDED %s %s %s (exit %d) %s %s" % (os.path.basename(d), p, "DETECTED" if det else "MISSED", rr.returncode,
                                                       viol[0] if viol else "", oracle[0][:200] if oracle else ""))
            sys.stdout.flush()
    finally:
        subprocess.run(["git", "-C", "/repo", "reset", "-q"], stdout=subprocess.DEVNULL, stderr=subprocess.DEVNULL)
        subprocess.run(["git", "-C", "/repo", "checkout", "--", "."])
        # failing replays written during the run stay under /verif/failures (ignored by git)
    out = os.path.join(d, "check_results.json")
    merged = {}
    if os.path.exists(out):
        try:
            merged = json.load(open(out))
        except ValueError:
            merged = {}
    merged.update(results)
    json.dump(merged, open(out, "w"), indent=1, sort_keys=True)
    return 0


if __name__ == "__main__":
    sys.exit(main())
