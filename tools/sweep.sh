#!/bin/sh
# usage: sweep.sh "seeds" [tier]   -- run every registered check with each seed; print the summary lines
tier=${2:-quick}
for s in $1; do
  for i in 01 02 03 04 05 06 07 08 09 10 11 12 13 14 15 16 17 18 19 20; do
    VERIF_SEED=$s python3 verif.py check C$i --tier $tier 2>&1 | grep -E 'VIOLATION|INCONCLUSIVE|failing oracle|^C[0-9][0-9] ' | sed "s/^/seed=$s /" | cut -c1-260
  done
done
