#!/usr/bin/env python3
"""Writes /verif/MANIFEST.json from the table below (so that the file is always valid)."""
import json
import os
import subprocess

VERIF = os.path.dirname(os.path.dirname(os.path.abspath(__file__)))

# property -> (DESIGN.md section, technique, level text, trusted base)
CHECKS = {
    "C01": ("5/C01", "model-based PBT: same function by many routes, == iff equal value tables",
            "Generated multi-route programs (minterm order, operation chains incl. in-place results x += y, algebraic detours, copies through other forests, release/GC/handle reuse in between; variable sizes 1..20); after every step every pair of live edges of a forest must compare equal exactly when their independent value tables are equal; plus unique-table self-lookup and hash agreement of every node. Exploration: held on everything generated.",
            "value-table model; exact (grid) values for reals and EV*"),
    "C02": ("5/C02", "stateful PBT with a whole-forest structural audit after every API call",
            "Random histories over all forest kinds, reduction rules and the 36 storage/memory/deletion policies, sometimes with a variable reordering in the middle and with variables of size 1; after every step each live node is audited against the documented reduction rules (duplicates, transparency, redundancy, quasi level skipping, identity singletons, child order/liveness, EV normalisation, full/sparse view and hash agreement, unique-table and node counts).",
            "audit rules taken from policies.h documentation; public inspection API"),
    "C03": ("5/C03", "PBT against a reference minterm matcher (evaluate + independent diagram expansion)",
            "Random minterm collections / single minterms / constants / variable functions in every forest kind and policy, compared at every assignment with a reference matcher, both through dd_edge::evaluate and through the harness' own expansion of the diagram.",
            "reference matcher in the harness; documented ordering precondition of buildFunctionMax/Min"),
    "C04": ("5/C04", "PBT, pointwise boolean model over forest pools with two distinct forests per rule",
            "Random programs of union/intersection/difference/complement/cross whose operands and result live in independently chosen forests (two distinct forests per reduction rule), with warm compute tables, result edges that are fresh, an operand (in-place) or already in use; result and operands checked pointwise.",
            "boolean pointwise model"),
    "C05": ("5/C05", "PBT, pointwise scalar model incl. +infinity and documented errors",
            "Random programs of arithmetic, comparisons, min/max, dist-min, dist-inc, user maps and range queries over MT int/real, EV+ and EV* forests; pointwise scalar semantics, also for in-place results (x += y); invalid scalar points must raise the documented error and leave the result edge unchanged.",
            "scalar semantics of section 3.4; UNSPEC points skipped and counted; tolerance for reals"),
    "C06": ("5/C06", "stateful PBT with exact reference recount after every API call and drain points",
            "Random histories of constructions, operations, edge copies/assignments/releases, up to 70000 temporaries of one edge, cache clears, under optimistic/pessimistic/never deletion; after every step every live node's recorded incoming count must equal the harness' recount (parents + registered edges + nodes under construction), no live node may reference a reclaimed one, every held edge must still evaluate to its table; at drain points only nodes reachable from library-held registered edges may remain.",
            "recount through the public inspection API plus the guarded root-edge visitor; error-raising calls are excluded (C16)"),
    "C07": ("5/C07", "stateful PBT over compute-table configurations: model comparison + cache-count recount",
            "Random histories under random CT style / stale policy / max size / compression with releases, stale removal and cache clears so that nodes die and handles are recycled; every result and every held edge is compared with the CT-independent model after every step, and every node's cache count with a recount of the table entries.",
            "model is independent of any cache; compute_table::countAllNodeEntries + guarded cache-count accessor"),
    "C11": ("5/C11", "PBT: iterator sequence vs sorted model set; counts vs own traversal",
            "Random functions of every forest kind iterated with/without masks and counted; the visited sequence must be exactly the non-default assignments under the mask, in lexicographic order, with the right values; exhausted iterators are false and throw INVALID_ITERATOR; cardinality as long/double/mpz and node/edge counts are compared with the harness' own counts.",
            "lexicographic order by level (unprimed before primed) as documented/used by the tests"),
    "C12": ("5/C12", "configuration-differential PBT over storage x memory-manager x deletion policies",
            "One random history executed under 12 (quick, covering) / 36 (thorough) policy combinations: every run must match the model pointwise and pass the structural audit, and the handle-free canonical forms and node counts of all produced edges must be identical across runs (programs with an EV* forest: values only).",
            "EV* structure is not compared across policies (the library compares float edge values with a 1e-6 tolerance, so node sharing depends on what was reclaimed)"),
    "C08": ("5/C08", "PBT against an explicit BFS on the explicit transition graph; cross-algorithm edge identity",
            "Random event-built relations (every reduction rule) and initial sets (boolean / MT-int distance / EV+ distance); every offered algorithm, forward and backward, repeated calls in the same forests; results equal the BFS reachable set / shortest distances pointwise and different algorithms give the identical edge.",
            "explicit graph + BFS in the harness; MT-int 'unreachable' = any negative value; SATUR with non-identity relation forests is a recorded known finding and excluded by construction"),
    "C09": ("5/C09", "PBT against the explicit neighbour / sum-of-products definition",
            "Pre/post images of boolean and distance-valued sets (fully- and quasi-reduced, also in place) under relations of every reduction rule, and VM/MV products of int/real vectors and matrices, compared pointwise with the explicit definition; results must also be canonical (== every other edge of the forest with the same table, e.g. the image under the empty relation == the constant) and obey the result forest's reduction rule (structural audit).",
            "explicit definition in the harness; tolerance for reals scaled by the summed magnitudes"),
    "C13": ("5/C13", "stateful PBT: held edges re-evaluated under the new variable order + structural audit",
            "MT set/relation and EV+ set forests, all 8 heuristics and both swap methods, uniformly random target permutations, several held edges and warm compute tables; after reorderVariables() every held edge must evaluate to its table with minterm positions taken from the forest's new order, the forest must pass the structural audit, and other forests over the domain must be untouched.",
            "model indexed by variable, not level; RANDOM heuristic seeded through the guarded hook; LEVEL swap on relations is never performed by the library (recorded observation) and is not executed"),
    "C14": ("5/C14", "round-trip PBT through the exchange-file writer/reader",
            "0-8 roots incl. shared sub-graphs, terminal and repeated roots written and read back into the same forest, another forest of the same kind with other policies, or a forest created from the file; same number/order of roots, equal tables, identical edges in the writing forest, multi-terminal real values equal to what the library held when writing to 1e-9 (the format prints 11 digits; 7-9 digit values are generated), audit + exact reference recount of the receiving forest.",
            "in-memory streams; EV* reals compared to the 6 printed digits; relation files from non-identity-reduced writers read via mdd_reader(domain) are a recorded known finding"),
    "C15": ("5/C15", "PBT against the sorted member list",
            "Random boolean sets incl. empty and full, over variables of size 1..20, converted to index sets: members in lexicographic order map to 0..n-1, others to +infinity; getElement(i) returns member i or false outside 0..n-1; stored cardinalities equal the true member counts in every node. Plus product sets too large to enumerate (up to ~10^17 members over up to 26 variables) whose ranks, i-th members and cardinalities have closed forms, checked at sampled members / indexes.",
            "lexicographic order by level"),
    "C16": ("5/C16", "fault-injecting stateful PBT: misuse calls spliced into valid histories, error-contract oracle + state audit",
            "Valid histories over two domains and several forest kinds with misuse calls spliced in (cross-domain / set-relation / labeling / range mismatches, compute() with foreign result or operand edges, out-of-range values, zero divisors met at the last point of the recursion, bad variables, foreign minterms, getElement on non-index edges, exhausted iterators, edges of destroyed forests, operands / result in forests with different variable orders, initialize() on a running library under every compute-table style, division errors in EV* forests); each must raise MEDDLY::error with a documented code and leave the edge passed as the result (fresh, an operand, or in use) exactly as it was; afterwards held edges, structural audit, no-undercount recount and further valid operations are checked.",
            "expected codes per misuse class from error.h and the throw sites; arithmetic shortcut cases that absorb an invalid point are a recorded known finding (C05) and excluded"),
    "C17": ("5/C17", "stateful PBT over creation/destruction orders with detachment, identifier and survivor audits",
            "Random orders of forest::destroy, domain::destroy, late forest creation and cleanup()/initialize() cycles with different compute-table settings, after operations that span forests; edges of destroyed forests must be inert and raise errors when used -- also edges kept alive across cleanup()/initialize(), when the new forests get the old identifiers --, identifiers never repeat, survivors are re-evaluated and audited with exact reference and cache recounts after every step.",
            "ASan for any touch of freed memory; four CT styles"),
    "C18": ("5/C18", "model-based PBT of the five memory managers against a reference allocator",
            "Random request/recycle sequences driven directly into each manager style; granted sizes, disjointness of live chunks, sentinel contents, handle uniqueness and isValidHandle are checked after every call.",
            "requests >= the declared minimum size, recycle with the granted size, MSB of every slot kept clear (the documented contract of memory.h)"),
    "C19": ("5/C19", "exhaustive enumeration (thorough) / stratified sampling (quick) of the terminal codecs",
            "Every terminal integer, the values just outside, and every non-NaN float pattern are encoded and decoded; zero/false is the unique transparent handle; out-of-range integers raise VALUE_OVERFLOW; EV+ edges keep 64-bit values and +infinity.",
            "independent rounding model for reals (last mantissa bit cleared); two denormals whose rounding is 0 are excluded from the zero-handle sub-assertion and counted"),
    "C20": ("5/C20", "PBT: partitioned saturation vs explicit closure under the union, and vs monolithic reachability (edge identity)",
            "1-8 events (random guard/update pairs and guard-only families whose union is the identity on their top variable) fed to SATURATION_FORWARD by events and by levels with every splitting option, optionally in place and with a second compute() on the same operation, compared with the explicit closure under the union of the events and with the monolithic result in the same forest.",
            "explicit closure in the harness; identity-reduced relation forest (what the operation supports); forward direction"),
    "C10": ("5/C10", "PBT, conversion model + there-and-back identity",
            "Random functions copied between every pair of same-shape forest kinds; target compared pointwise with the converted source table; lossless round trips must give the identical edge.",
            "documented scalar conversions; EV+ infinity into non-EV+ targets is UNSPEC"),
}

NOT_YET = {
}


def main():
    props = [json.loads(l) for l in open(os.path.join(VERIF, "properties.jsonl"))]
    ids = [p["id"] for p in props]
    repo_commits = subprocess.run(["git", "-C", "/repo", "log", "--format=%h %s"], stdout=subprocess.PIPE,
                                  text=True).stdout.splitlines()
    hooks = [c.split()[0] for c in repo_commits if c.split(" ", 1)[1].startswith("verif hooks")]
    checks = []
    na = []
    for pid in ids:
        if pid in CHECKS:
            sec, tech, text, note = CHECKS[pid]
            checks.append({
                "property_id": pid,
                "quick_cmd": "python3 verif.py check %s --tier quick" % pid,
                "thorough_cmd": "python3 verif.py check %s --tier thorough" % pid,
                "evidence_file": "evidence/%s.json" % pid,
                "replay_cmd_template": "python3 verif.py replay {path} --property %s" % pid,
                "engine": "mvh",
                "level_claimed": {"category": "exploration", "text": text, "design_ref": "DESIGN.md section " + sec},
                "level_note": "Trusted base: " + note + "; ASan/UBSan build of /repo's working tree with -DMEDDLY_VERIF; generated sizes only (DESIGN.md section 8).",
                "technique": tech,
            })
        else:
            na.append({"property_id": pid, "reason": NOT_YET.get(pid, "check not built yet in this revision of /verif (planned, see DESIGN.md section 5)")})
    man = {
        "version": 1,
        "setup_cmd": "python3 tools/vbuild.py",
        "hooks": {
            "guard": "MEDDLY_VERIF",
            "enable": "tools/vbuild.py compiles /repo/src with -DMEDDLY_VERIF (clang++ ASan+UBSan) into /verif/build",
            "baseline_off_cmd": "sh tools/baseline.sh",
            "source_commits": hooks,
            "add_only": True,
        },
        "engines": [
            {"name": "mvh", "path": "harness/", "serves_properties": sorted(CHECKS),
             "kind_free_text": "C++ program interpreter + explicit value-table model + oracles; deterministic generators (VERIF_SEED), replay files, out-of-process delta-debugging shrinker (verif.py); libFuzzer front-end for thorough tiers"},
        ],
        "checks": checks,
        "not_applicable": na,
        "notes": "Property-based testing / fuzzing only. See DESIGN.md; known findings in known_findings.json.",
    }
    with open(os.path.join(VERIF, "MANIFEST.json"), "w") as f:
        json.dump(man, f, indent=1)
    print("MANIFEST.json: %d checks, %d not_applicable" % (len(checks), len(na)))


if __name__ == "__main__":
    main()
