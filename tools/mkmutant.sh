#!/bin/sh
# usage: mkmutant.sh NAME PROP FILE SED_EXPR "summary"   -- record a one-line calibration mutant as mutants/NAME/patch.diff
set -e
N=$1; P=$2; F=$3; E=$4; S=$5
cd /repo
git diff --quiet || { echo "/repo dirty"; exit 1; }
sed -i "$E" "$F"
git diff --quiet && { echo "sed expression changed nothing"; exit 1; }
mkdir -p /verif/mutants/$N
git diff > /verif/mutants/$N/patch.diff
git checkout -- .
printf '{"property": "%s", "summary": "%s", "origin": "own calibration mutant (DESIGN.md section 5, M lists)"}\n' "$P" "$S" > /verif/mutants/$N/meta.json
echo "mutant $N recorded"
