#!/bin/sh
# usage: mkworktree.sh DIR   -- scratch git worktree of /repo (HEAD) with the ignored autotools files and
# build products copied in, so that `make` and `make -k check` work there at once
set -e
D="$1"
git -C /repo worktree add --detach "$D" HEAD >/dev/null 2>&1
rsync -a --ignore-existing --exclude .git /repo/ "$D"/
# libtool / Makefiles contain absolute paths to /repo only through srcdir-relative names; a plain make works
echo "$D ready"
