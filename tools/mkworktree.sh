#!/bin/sh
# usage: mkworktree.sh DIR   -- scratch git worktree of /repo (HEAD) with the ignored autotools files and
# build products copied in, so that `make` and `make -k check` work there at once (only changed files rebuild)
set -e
D="$1"
git -C /repo worktree add --detach "$D" HEAD >/dev/null 2>&1
rsync -a --ignore-existing --exclude .git /repo/ "$D"/
# the checkout gave the sources fresh mtimes; make the copied build products newer still
sleep 1
find "$D" \( -name '*.o' -o -name '*.lo' -o -name '*.la' -o -name '*.a' -o -name '*.so*' -o -path '*/.libs/*' -o -name '*.Po' -o -name '*.Plo' \) -type f -exec touch {} +
find "$D/tests" "$D/examples" -maxdepth 1 -type f -perm -u+x ! -name '*.sh' ! -name '*.cc' -exec touch {} + 2>/dev/null || true
echo "$D ready"
