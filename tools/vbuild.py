#!/usr/bin/env python3
"""Content-addressed sanitizer build of MEDDLY + the harness.

Every object is keyed by the SHA-256 of (compiler flags, the source file and every
header it included the last time it was compiled).  An unchanged tree costs well under a
second; a changed .cc a few seconds; switching back and forth between two versions of a
file (mutant calibration, seeded patches applied to /repo and reverted) is free because
objects stay in the cache.

  vbuild.py [--root DIR]        build library + harness binaries, print the bin dir

The source root is /repo unless MVH_SRC or --root says otherwise (scratch copies for
mutant calibration).  Everything goes to /verif/build (git-ignored).
"""
import fcntl
import hashlib
import json
import os
import re
import subprocess
import sys
import time
from concurrent.futures import ThreadPoolExecutor

VERIF = os.path.dirname(os.path.dirname(os.path.abspath(__file__)))
BUILD = os.path.join(VERIF, "build")
CACHE = os.path.join(BUILD, "objcache")
HARNESS = os.path.join(VERIF, "harness")
CXX = "clang++"
SAN = ["-fsanitize=address,undefined",
       "-fno-sanitize=shift-base,alignment,pointer-overflow",
       "-fno-sanitize-recover=undefined"]
BASEFLAGS = ["-std=gnu++17", "-gline-tables-only", "-O1", "-fno-omit-frame-pointer",
             "-DMEDDLY_VERIF", "-DHAVE_CONFIG_H", "-Wno-everything"]
LIBFLAGS = BASEFLAGS + ["-fsanitize=fuzzer-no-link"] + SAN
HARFLAGS = BASEFLAGS + ["-fsanitize=fuzzer-no-link"] + SAN
CACHE_LIMIT = 3 << 30   # bytes kept in the object cache

_hash_cache = {}


def fhash(path):
    try:
        st = os.stat(path)
    except OSError:
        return "missing"
    k = (path, st.st_mtime_ns, st.st_size)
    h = _hash_cache.get(k)
    if h is None:
        with open(path, "rb") as f:
            h = hashlib.sha256(f.read()).hexdigest()
        _hash_cache[k] = h
    return h


def lib_sources(root):
    am = open(os.path.join(root, "src", "Makefile.am")).read()
    m = re.search(r"libmeddly_la_SOURCES\s*=(.*?)\n\s*\n", am, re.S)
    body = m.group(1) if m else am
    srcs = []
    for tok in body.replace("\\\n", " ").split():
        if tok.endswith(".cc") and tok not in srcs:
            srcs.append(tok)
    return srcs


def incflags(root):
    fl = ["-I" + root, "-I" + os.path.join(root, "src")]
    if not os.path.exists(os.path.join(root, "config.h")):
        fl.append("-I/repo")
    return fl


def parse_deps(dfile):
    try:
        txt = open(dfile).read()
    except OSError:
        return None
    txt = txt.replace("\\\n", " ")
    txt = txt.split(":", 1)[1] if ":" in txt else ""
    return [t for t in txt.split() if not t.startswith("/usr/") and not t.startswith("/lib/")]


def relname(path, root):
    path = os.path.normpath(path)
    for base, tag in ((root, "R"), (VERIF, "V")):
        b = os.path.normpath(base) + os.sep
        if path.startswith(b):
            return tag + ":" + path[len(b):]
    return "A:" + path


def absname(rel, root):
    tag, p = rel.split(":", 1)
    if tag == "R":
        return os.path.join(root, p)
    if tag == "V":
        return os.path.join(VERIF, p)
    return p


def key_for(src, deps_rel, flags, root):
    h = hashlib.sha256()
    h.update(" ".join(flags).encode())
    h.update(relname(src, root).encode())
    for d in sorted(set(deps_rel)):
        h.update(d.encode())
        h.update(fhash(absname(d, root)).encode())
    return h.hexdigest()[:32]


def compile_one(src, flags, root, rootid):
    """returns (objpath, compiled?)"""
    depdir = os.path.join(BUILD, "deps")
    tag = hashlib.sha256(relname(src, root).encode()).hexdigest()[:16]
    # known dependency lists for this source (per root first, then any root)
    cands = [os.path.join(depdir, rootid + "-" + tag + ".json"),
             os.path.join(depdir, "repo-" + tag + ".json")]
    shown_flags = [f for f in flags if not f.startswith("-I")]
    for c in cands:
        try:
            deps_rel = json.load(open(c))
        except (OSError, ValueError):
            continue
        k = key_for(src, deps_rel, shown_flags, root)
        obj = os.path.join(CACHE, k + ".o")
        if os.path.exists(obj):
            os.utime(obj, None)
            if c != cands[0]:
                json.dump(deps_rel, open(cands[0], "w"))
            return obj, False
    tmpo = os.path.join(CACHE, "tmp-%d-%s.o" % (os.getpid(), tag))
    tmpd = tmpo[:-2] + ".d"
    cmd = [CXX] + flags + ["-MMD", "-MF", tmpd, "-c", src, "-o", tmpo]
    r = subprocess.run(cmd, stdout=subprocess.PIPE, stderr=subprocess.STDOUT, text=True)
    if r.returncode != 0:
        sys.stderr.write("COMPILE FAILED: %s\n%s\n" % (" ".join(cmd), r.stdout[-6000:]))
        raise SystemExit(3)
    deps = parse_deps(tmpd) or [src]
    deps_rel = sorted(set(relname(d, root) for d in deps))
    os.remove(tmpd)
    k = key_for(src, deps_rel, shown_flags, root)
    obj = os.path.join(CACHE, k + ".o")
    os.replace(tmpo, obj)
    json.dump(deps_rel, open(cands[0], "w"))
    return obj, True


def prune_cache():
    ents = []
    tot = 0
    for n in os.listdir(CACHE):
        p = os.path.join(CACHE, n)
        try:
            st = os.stat(p)
        except OSError:
            continue
        ents.append((st.st_atime, st.st_size, p))
        tot += st.st_size
    if tot <= CACHE_LIMIT:
        return
    ents.sort()
    for _, sz, p in ents:
        if tot <= CACHE_LIMIT * 0.7:
            break
        try:
            os.remove(p)
            tot -= sz
        except OSError:
            pass


def build(root=None, quiet=True):
    root = os.path.abspath(root or os.environ.get("MVH_SRC") or "/repo")
    rootid = "repo" if root == "/repo" else "r" + hashlib.sha256(root.encode()).hexdigest()[:10]
    os.makedirs(CACHE, exist_ok=True)
    os.makedirs(os.path.join(BUILD, "deps"), exist_ok=True)
    bindir = os.path.join(BUILD, "roots", rootid)
    os.makedirs(bindir, exist_ok=True)
    lock = open(os.path.join(BUILD, "lock"), "w")
    fcntl.flock(lock, fcntl.LOCK_EX)
    try:
        t0 = time.time()
        inc = incflags(root)
        jobs = []
        for s in lib_sources(root):
            jobs.append((os.path.join(root, "src", s), LIBFLAGS + inc, "lib"))
        hsrcs = sorted(f for f in os.listdir(HARNESS) if f.endswith(".cc"))
        for s in hsrcs:
            jobs.append((os.path.join(HARNESS, s), HARFLAGS + inc + ["-I" + HARNESS], "har"))
        with ThreadPoolExecutor(max_workers=min(16, os.cpu_count() or 4)) as ex:
            res = list(ex.map(lambda j: compile_one(j[0], j[1], root, rootid), jobs))
        ncomp = sum(1 for _, c in res if c)
        libobjs = [o for (o, _), j in zip(res, jobs) if j[2] == "lib"]
        harobjs = {os.path.basename(j[0]): o for (o, _), j in zip(res, jobs) if j[2] == "har"}
        stamp = os.path.join(bindir, "stamp.json")
        want = {"lib": libobjs, "har": harobjs}
        try:
            have = json.load(open(stamp))
        except (OSError, ValueError):
            have = None
        outs = link_plan(bindir, harobjs)
        if have != want or not all(os.path.exists(o) for o in outs):
            lib = os.path.join(bindir, "libmeddly_verif.a")
            if os.path.exists(lib):
                os.remove(lib)
            subprocess.check_call(["ar", "rcs", lib] + libobjs)
            do_link(bindir, harobjs, lib)
            json.dump(want, open(stamp, "w"))
        prune_cache()
        if not quiet:
            sys.stderr.write("vbuild: root=%s compiled=%d/%d in %.1fs -> %s\n"
                             % (root, ncomp, len(jobs), time.time() - t0, bindir))
        return bindir
    finally:
        fcntl.flock(lock, fcntl.LOCK_UN)
        lock.close()


# harness sources: fz_*.cc hold a libFuzzer entry point, main*.cc a main(); the rest is shared
def link_plan(bindir, harobjs):
    outs = []
    for n in harobjs:
        if n.startswith("main_"):
            outs.append(os.path.join(bindir, n[5:-3]))
        if n.startswith("fz_"):
            outs.append(os.path.join(bindir, n[:-3]))
    return outs


def do_link(bindir, harobjs, lib):
    shared = [o for n, o in harobjs.items() if not n.startswith("main_") and not n.startswith("fz_")]
    for n, o in harobjs.items():
        if n.startswith("main_"):
            out = os.path.join(bindir, n[5:-3])
            cmd = [CXX] + SAN + ["-o", out, o] + shared + [lib, "-lgmp"]
        elif n.startswith("fz_"):
            out = os.path.join(bindir, n[:-3])
            cmd = [CXX, "-fsanitize=fuzzer"] + SAN + ["-o", out, o] + shared + [lib, "-lgmp"]
        else:
            continue
        r = subprocess.run(cmd, stdout=subprocess.PIPE, stderr=subprocess.STDOUT, text=True)
        if r.returncode != 0:
            sys.stderr.write("LINK FAILED: %s\n%s\n" % (" ".join(cmd), r.stdout[-6000:]))
            raise SystemExit(3)


if __name__ == "__main__":
    root = None
    a = sys.argv[1:]
    if a[:1] == ["--root"]:
        root = a[1]
    print(build(root, quiet=False))
