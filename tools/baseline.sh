#!/bin/sh
# Runs the repository's own pinned suite (guard OFF: the normal in-tree autotools build).
# Prints PASS/FAIL totals; exit 0 iff no test fails.
cd /repo || exit 2
make -j16 >/tmp/meddly-baseline-build.log 2>&1 || { tail -30 /tmp/meddly-baseline-build.log; exit 2; }
make -k -j8 check >/tmp/meddly-baseline-check.log 2>&1
grep -E '^# (TOTAL|PASS|FAIL|ERROR|SKIP|XFAIL|XPASS):' /tmp/meddly-baseline-check.log
fails=$(grep -E '^# (FAIL|ERROR):' /tmp/meddly-baseline-check.log | awk '{s+=$3} END{print s+0}')
[ "$fails" = "0" ]
