// gen.h -- shared generator helpers
#ifndef MV_GEN_H
#define MV_GEN_H
#include "mv.h"

namespace mv {

struct GenSlot { bool live = false; int f = -1; bool nonzero = false; };

// generator-side value: k is the integer, or quarter units for reals
struct GVal { bool inf = false; long k = 0; };

struct Gen {
    Rand& R;
    int tier;           // 0 quick, 1 thorough
    Program P;
    std::vector<GenSlot> slots;     // generator's view of which slots hold something
    bool allowTransparentMintermValue = true;

    Gen(Rand& r, int t, const std::string& prop) : R(r), tier(t) { P.property = prop; slots.resize(16); }

    // --- world ---
    void randomCt(bool vary);
    int addDomain(bool rel, int maxK = 0, long maxStates = 0);
    FSpec forestSpec(int dom, bool rel, char range, char label, char red, bool randPol);
    int addForest(const FSpec& f) { P.forests.push_back(f); return int(P.forests.size()) - 1; }
    void randomPolicies(FSpec& f);
    struct Kind { bool rel; char range, label; };
    static const std::vector<Kind>& kinds();        // every kind forest::create accepts
    char randomReduction(bool rel) { return rel ? "FQI"[R.below(3)] : "FQ"[R.below(2)]; }

    // --- values ---
    std::string tok(const FSpec& f, const GVal& v) const;
    GVal randomValue(const FSpec& f, bool allowInf, bool nonzero);
    std::vector<GVal> palette(const FSpec& f, int n, bool allowInf, bool nonzero);
    static int cmp(const GVal& a, const GVal& b) { if (a.inf || b.inf) return a.inf == b.inf ? 0 : (a.inf ? 1 : -1); return a.k < b.k ? -1 : a.k > b.k; }
    GVal transparent(const FSpec& f) const { GVal g; g.inf = (f.label == 'P' || f.label == 'X'); return g; }

    // --- steps ---
    void emit(const Step& s) { P.steps.push_back(s); }
    void emitMinterm(int f, int style, const std::string& val);
    void genFunction(int dst, int f, int maxMinterms = 12, bool nonzero = false);
    void genCollection(int dst, int f, int maxMinterms, bool nonzero);
    void genConst(int dst, int f, bool nonzero = false);
    void genVar(int dst, int f, bool nonzero = false);
    int pickLive(int f = -1);                 // a live slot (of forest f if >= 0), or -1
    int pickLiveWhere(const std::function<bool(const FSpec&)>& pred);
    int freeSlot(int maxSlots = 12);
    void setLive(int s, int f, bool nonzero = false)
    {
        if (s >= int(slots.size())) slots.resize(size_t(s) + 1);
        slots[size_t(s)].live = true; slots[size_t(s)].f = f; slots[size_t(s)].nonzero = nonzero;
    }
    void setDead(int s) { if (s >= 0 && s < int(slots.size())) slots[size_t(s)].live = false; }
    static std::string num(long v) { return std::to_string(v); }

    // --- generic history pieces ---
    // emit one random operation among `ops` whose operands/result live in `pool`; returns false if none applies
    bool emitOp(const std::vector<std::string>& ops, const std::vector<int>& pool);
    void emitChurn(const std::vector<int>& pool);       // release / dup / assign / clearct / stales / temps
};

// one generator per property (gen_*.cc)
Program genC01(Rand& R, int tier);
Program genC02(Rand& R, int tier);
Program genC03(Rand& R, int tier);
Program genC04(Rand& R, int tier);
Program genC05(Rand& R, int tier);
Program genC06(Rand& R, int tier);
Program genC07(Rand& R, int tier);
Program genC08(Rand& R, int tier);
Program genC09(Rand& R, int tier);
Program genC10(Rand& R, int tier);
Program genC11(Rand& R, int tier);
Program genC12(Rand& R, int tier);
Program genC13(Rand& R, int tier);
Program genC14(Rand& R, int tier);
Program genC15(Rand& R, int tier);
Program genC16(Rand& R, int tier);
Program genC17(Rand& R, int tier);
Program genC20(Rand& R, int tier);

} // namespace mv
#endif
