// gen_props.cc -- per-property generators (construction, algebra, arithmetic, copy, canonicity,
// lifetime, compute tables, policies) and the non-triviality rules
#include "gen.h"

namespace mv {

static const std::vector<std::string> SETOPS = {"UNION", "INTERSECTION", "DIFFERENCE", "COMPLEMENT"};
static const std::vector<std::string> ARITH = {"PLUS", "MINUS", "MULTIPLY", "DIVIDE", "MODULO", "MAXIMUM", "MINIMUM"};
static const std::vector<std::string> CMPS = {"EQUAL", "NOT_EQUAL", "LESS_THAN", "LESS_THAN_EQUAL", "GREATER_THAN", "GREATER_THAN_EQUAL"};
static const std::vector<std::string> USERMAPS = {"U_inc", "U_dbl", "U_sqm7", "U_pos", "U_c3", "U_neg"};

static std::vector<std::string> cat(std::initializer_list<std::vector<std::string>> l)
{
    std::vector<std::string> r;
    for (auto& v : l) r.insert(r.end(), v.begin(), v.end());
    return r;
}

// ---------------------------------------------------------------------------------------
// C03: construction
// ---------------------------------------------------------------------------------------
Program genC03(Rand& R, int tier)
{
    Gen G(R, tier, "C03");
    const Gen::Kind k = Gen::kinds()[R.below(uint32_t(Gen::kinds().size()))];
    int d = G.addDomain(k.rel, k.rel ? 3 : 6);
    int f = G.addForest(G.forestSpec(d, k.rel, k.range, k.label, G.randomReduction(k.rel), true));
    int n = R.range(1, 5);
    for (int i = 0; i < n; i++) G.genFunction(i, f, tier ? 40 : 16);
    return G.P;
}

// ---------------------------------------------------------------------------------------
// forest pools
// ---------------------------------------------------------------------------------------
// two distinct forests per reduction rule of one kind; returns the pool
static std::vector<int> poolOfKind(Gen& G, int d, const Gen::Kind& k, bool randPol, int perRule = 2)
{
    std::vector<int> pool;
    const char* reds = k.rel ? "FQI" : "FQ";
    for (const char* r = reds; *r; r++)
        for (int i = 0; i < perRule; i++) pool.push_back(G.addForest(G.forestSpec(d, k.rel, k.range, k.label, *r, randPol)));
    return pool;
}

// ---------------------------------------------------------------------------------------
// C04: set algebra
// ---------------------------------------------------------------------------------------
Program genC04(Rand& R, int tier)
{
    Gen G(R, tier, "C04");
    const bool rel = R.chance(50);
    int d = G.addDomain(rel);
    std::vector<int> pool = poolOfKind(G, d, {rel, 'B', 'M'}, R.chance(40));
    std::vector<int> all = pool;
    std::vector<std::string> ops = SETOPS;
    if (!rel && R.chance(40)) {
        // relation forests for CROSS (small domains only)
        long n = 1; for (int s : G.P.domains[size_t(d)]) n *= s;
        if (n <= (tier ? 90 : 48)) {
            std::vector<int> rp = poolOfKind(G, d, {true, 'B', 'M'}, false, 1);
            all.insert(all.end(), rp.begin(), rp.end());
            ops.push_back("CROSS"); ops.push_back("CROSS");
        }
    }
    int nf = R.range(2, 5);
    for (int i = 0; i < nf; i++) G.genFunction(i, pool[R.below(uint32_t(pool.size()))], 10);
    int nops = R.range(6, tier ? 60 : 30);
    for (int i = 0; i < nops; i++) {
        if (R.chance(12)) G.genFunction(G.freeSlot(), all[R.below(uint32_t(pool.size()))], 10);
        else if (R.chance(8)) G.emitChurn(all);
        else G.emitOp(ops, all);
    }
    return G.P;
}

// ---------------------------------------------------------------------------------------
// C05: arithmetic, comparison, min/max, maps, range
// ---------------------------------------------------------------------------------------
Program genC05(Rand& R, int tier)
{
    Gen G(R, tier, "C05");
    static const std::vector<Gen::Kind> numeric = {
        {false, 'I', 'M'}, {false, 'R', 'M'}, {true, 'I', 'M'}, {true, 'R', 'M'},
        {false, 'I', 'P'}, {true, 'I', 'P'}, {true, 'R', 'T'}};
    const Gen::Kind k = numeric[R.below(uint32_t(numeric.size()))];
    int d = G.addDomain(k.rel);
    std::vector<int> pool = poolOfKind(G, d, k, R.chance(30));
    std::vector<int> all = pool;
    // result forests for comparisons and boolean maps
    all.push_back(G.addForest(G.forestSpec(d, k.rel, 'B', 'M', G.randomReduction(k.rel), false)));
    all.push_back(G.addForest(G.forestSpec(d, k.rel, 'I', 'M', G.randomReduction(k.rel), false)));
    if (R.chance(30)) all.push_back(G.addForest(G.forestSpec(d, k.rel, 'R', 'M', G.randomReduction(k.rel), false)));
    std::vector<std::string> ops = cat({ARITH, ARITH, CMPS, USERMAPS, {"DIST_MIN", "DIST_INC", "MAXR", "MINR", "MAXR", "MINR"}});
    int nf = R.range(2, 4);
    for (int i = 0; i < nf; i++) G.genFunction(i, pool[R.below(uint32_t(pool.size()))], 10);
    int nops = R.range(5, tier ? 40 : 20);
    for (int i = 0; i < nops; i++) {
        if (R.chance(15)) G.genFunction(G.freeSlot(), pool[R.below(uint32_t(pool.size()))], 10);
        else if (R.chance(6)) G.emitChurn(all);
        else G.emitOp(ops, all);
    }
    return G.P;
}

// ---------------------------------------------------------------------------------------
// C10: copy
// ---------------------------------------------------------------------------------------
Program genC10(Rand& R, int tier)
{
    Gen G(R, tier, "C10");
    const bool rel = R.chance(50);
    int d = G.addDomain(rel);
    std::vector<int> all;
    for (auto& k : Gen::kinds()) {
        if (k.rel != rel) continue;
        int n = R.range(1, 2);
        for (int i = 0; i < n; i++) all.push_back(G.addForest(G.forestSpec(d, rel, k.range, k.label, G.randomReduction(rel), R.chance(25))));
    }
    int nf = R.range(1, 3);
    for (int i = 0; i < nf; i++) G.genFunction(i, all[R.below(uint32_t(all.size()))], 10);
    int nops = R.range(4, tier ? 30 : 16);
    for (int i = 0; i < nops; i++) {
        if (R.chance(15)) G.genFunction(G.freeSlot(), all[R.below(uint32_t(all.size()))], 10);
        else if (R.chance(25)) {
            // there and back
            int a = G.pickLive();
            if (a < 0) continue;
            int fa = G.slots[size_t(a)].f;
            int fb = all[R.below(uint32_t(all.size()))];
            int t = G.freeSlot();
            G.emit({"un", "COPY", Gen::num(a), Gen::num(t), Gen::num(fb)}); G.setLive(t, fb);
            int u = G.freeSlot();
            G.emit({"roundtrip", Gen::num(a), Gen::num(t), Gen::num(u), Gen::num(fa)}); G.setLive(u, fa);
        }
        else G.emitOp({"COPY"}, all);
    }
    return G.P;
}

// ---------------------------------------------------------------------------------------
// C02: reduction rules in every stored node (histories over all kinds and policies)
// ---------------------------------------------------------------------------------------
static void mixedHistory(Gen& G, int tier, int minSteps, int maxSteps, int churnPct)
{
    Rand& R = G.R;
    const Gen::Kind k = Gen::kinds()[R.below(uint32_t(Gen::kinds().size()))];
    int d = G.addDomain(k.rel);
    std::vector<int> pool;
    int nforests = R.range(1, 3);
    for (int i = 0; i < nforests; i++) pool.push_back(G.addForest(G.forestSpec(d, k.rel, k.range, k.label, G.randomReduction(k.rel), true)));
    std::vector<int> all = pool;
    if (k.range != 'B') all.push_back(G.addForest(G.forestSpec(d, k.rel, 'B', 'M', G.randomReduction(k.rel), true)));
    std::vector<std::string> ops;
    if (k.range == 'B') ops = cat({SETOPS, SETOPS, {"COPY", "CARD_L"}});
    else ops = cat({ARITH, CMPS, USERMAPS, {"COPY", "DIST_MIN", "DIST_INC", "MAXR", "MINR", "CARD_L"}});
    int nf = R.range(2, 5);
    for (int i = 0; i < nf; i++) G.genFunction(i, pool[R.below(uint32_t(pool.size()))], 12);
    int nops = R.range(minSteps, maxSteps);
    for (int i = 0; i < nops; i++) {
        int r = int(R.below(100));
        if (r < 18) G.genFunction(G.freeSlot(), pool[R.below(uint32_t(pool.size()))], tier ? 30 : 12);
        else if (r < 18 + churnPct) G.emitChurn(all);
        else G.emitOp(ops, all);
    }
}

Program genC02(Rand& R, int tier)
{
    Gen G(R, tier, "C02");
    mixedHistory(G, tier, 8, tier ? 80 : 35, 25);
    return G.P;
}

// ---------------------------------------------------------------------------------------
// dispatch
// ---------------------------------------------------------------------------------------
Program generate(const std::string& p, Rand& R, int tier)
{
    if (p == "C02") return genC02(R, tier);
    if (p == "C03") return genC03(R, tier);
    if (p == "C04") return genC04(R, tier);
    if (p == "C05") return genC05(R, tier);
    if (p == "C10") return genC10(R, tier);
    Program P; P.property = p;
    return P;
}

bool nontrivialRule(const std::string& p, const Labels& L)
{
    if (p == "C02") return L.has("audit_20nodes") && L.has("node_death");
    if (p == "C03") return L.has("overlap_different_values") || L.has("dont_change") || L.has("nondefault_default");
    if (p == "C04") return L.has("both_operands_nonconstant") && (L.has("cross_forest_op") || L.get("op.UNION") + L.get("op.INTERSECTION") + L.get("op.DIFFERENCE") > 3);
    if (p == "C05") return L.has("both_operands_nonconstant") && L.has("nonconstant_result");
    if (p == "C10") return L.has("op.COPY") && L.has("nonconstant_result") && (L.has("reductions_differ") || L.has("same_rule_distinct_forest"));
    return true;
}

const char* ruleText(const std::string& p)
{
    if (p == "C02") return "random histories (build/operate/copy/release/clear caches) over all forest kinds, reduction rules and the 36 storage x memory-manager x deletion policies, whole-forest structural audit after every step; non-trivial = some audited forest held >= 20 nodes and at least one node died earlier in the history; distinct = distinct program text";
    if (p == "C03") return "random minterm collections / single minterms / constants / variable functions in one forest of a random kind, reduction rule and policy; compared pointwise with a reference matcher through evaluate() and through an independent expansion of the diagram; non-trivial = overlapping minterms with different values, or a DONT_CHANGE position, or a non-transparent default; distinct = distinct program text";
    if (p == "C04") return "random programs of union/intersection/difference/complement/cross over pools holding two distinct boolean forests per reduction rule; result and operands checked pointwise; non-trivial = an operation with two non-constant operands and (operands/result in different forests or a compute table warmed by >3 earlier set operations); distinct = distinct program text";
    if (p == "C05") return "random programs of arithmetic, comparison, min/max, dist-min, dist-inc, user maps and range queries over MT int/real, EV+ and EV* forests (two distinct forests per reduction rule); pointwise scalar semantics incl. +infinity and documented errors; non-trivial = an operation with two non-constant operands and a non-constant result; distinct = distinct program text";
    if (p == "C10") return "random functions copied between every pair of same-shape forest kinds and back; target compared pointwise with the converted source table, round trips must return the identical edge when the conversion is injective on the values used; non-trivial = non-constant function copied across different reduction rules or distinct forests of one rule; distinct = distinct program text";
    return "generated cases";
}

} // namespace mv
