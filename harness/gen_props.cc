// gen_props.cc -- per-property generators (construction, algebra, arithmetic, copy, canonicity,
// lifetime, compute tables, policies) and the non-triviality rules
#include "gen.h"

namespace mv {

static const std::vector<std::string> SETOPS = {"UNION", "INTERSECTION", "DIFFERENCE", "COMPLEMENT"};
static const std::vector<std::string> ARITH = {"PLUS", "MINUS", "MULTIPLY", "DIVIDE", "MODULO", "MAXIMUM", "MINIMUM"};
static const std::vector<std::string> CMPS = {"EQUAL", "NOT_EQUAL", "LESS_THAN", "LESS_THAN_EQUAL", "GREATER_THAN", "GREATER_THAN_EQUAL"};
static const std::vector<std::string> USERMAPS = {"U_inc", "U_dbl", "U_sqm7", "U_pos", "U_c3", "U_neg"};

static std::vector<std::string> cat(std::initializer_list<std::vector<std::string>> l)
{
    std::vector<std::string> r;
    for (auto& v : l) r.insert(r.end(), v.begin(), v.end());
    return r;
}

// ---------------------------------------------------------------------------------------
// C03: construction
// ---------------------------------------------------------------------------------------
Program genC03(Rand& R, int tier)
{
    Gen G(R, tier, "C03");
    const Gen::Kind k = Gen::kinds()[R.below(uint32_t(Gen::kinds().size()))];
    int d = G.addDomain(k.rel, k.rel ? 3 : 6);
    int f = G.addForest(G.forestSpec(d, k.rel, k.range, k.label, G.randomReduction(k.rel), true));
    int n = R.range(1, 5);
    for (int i = 0; i < n; i++) G.genFunction(i, f, tier ? 40 : 16);
    return G.P;
}

// ---------------------------------------------------------------------------------------
// forest pools
// ---------------------------------------------------------------------------------------
// two distinct forests per reduction rule of one kind; returns the pool
static std::vector<int> poolOfKind(Gen& G, int d, const Gen::Kind& k, bool randPol, int perRule = 2)
{
    std::vector<int> pool;
    const char* reds = k.rel ? "FQI" : "FQ";
    for (const char* r = reds; *r; r++)
        for (int i = 0; i < perRule; i++) pool.push_back(G.addForest(G.forestSpec(d, k.rel, k.range, k.label, *r, randPol)));
    return pool;
}

// ---------------------------------------------------------------------------------------
// C04: set algebra
// ---------------------------------------------------------------------------------------
Program genC04(Rand& R, int tier)
{
    Gen G(R, tier, "C04");
    const bool rel = R.chance(50);
    int d = G.addDomain(rel);
    std::vector<int> pool = poolOfKind(G, d, {rel, 'B', 'M'}, R.chance(40));
    std::vector<int> all = pool;
    std::vector<std::string> ops = SETOPS;
    if (!rel && R.chance(40)) {
        // relation forests for CROSS (small domains only)
        long n = 1; for (int s : G.P.domains[size_t(d)]) n *= s;
        if (n <= (tier ? 90 : 48)) {
            std::vector<int> rp = poolOfKind(G, d, {true, 'B', 'M'}, false, 1);
            all.insert(all.end(), rp.begin(), rp.end());
            ops.push_back("CROSS"); ops.push_back("CROSS");
        }
    }
    int nf = R.range(2, 5);
    for (int i = 0; i < nf; i++) G.genFunction(i, pool[R.below(uint32_t(pool.size()))], 10);
    int nops = R.range(6, tier ? 60 : 30);
    for (int i = 0; i < nops; i++) {
        if (R.chance(12)) G.genFunction(G.freeSlot(), all[R.below(uint32_t(pool.size()))], 10);
        else if (R.chance(8)) G.emitChurn(all);
        else G.emitOp(ops, all);
    }
    return G.P;
}

// ---------------------------------------------------------------------------------------
// C05: arithmetic, comparison, min/max, maps, range
// ---------------------------------------------------------------------------------------
Program genC05(Rand& R, int tier)
{
    Gen G(R, tier, "C05");
    static const std::vector<Gen::Kind> numeric = {
        {false, 'I', 'M'}, {false, 'R', 'M'}, {true, 'I', 'M'}, {true, 'R', 'M'},
        {false, 'I', 'P'}, {true, 'I', 'P'}, {true, 'R', 'T'}};
    const Gen::Kind k = numeric[R.below(uint32_t(numeric.size()))];
    int d = G.addDomain(k.rel);
    std::vector<int> pool = poolOfKind(G, d, k, R.chance(30));
    std::vector<int> all = pool;
    // result forests for comparisons and boolean maps
    all.push_back(G.addForest(G.forestSpec(d, k.rel, 'B', 'M', G.randomReduction(k.rel), false)));
    all.push_back(G.addForest(G.forestSpec(d, k.rel, 'I', 'M', G.randomReduction(k.rel), false)));
    if (R.chance(30)) all.push_back(G.addForest(G.forestSpec(d, k.rel, 'R', 'M', G.randomReduction(k.rel), false)));
    std::vector<std::string> ops = cat({ARITH, ARITH, CMPS, USERMAPS, {"DIST_MIN", "DIST_INC", "MAXR", "MINR", "MAXR", "MINR"}});
    int nf = R.range(2, 4);
    for (int i = 0; i < nf; i++) G.genFunction(i, pool[R.below(uint32_t(pool.size()))], 10);
    int nops = R.range(5, tier ? 40 : 20);
    for (int i = 0; i < nops; i++) {
        if (R.chance(15)) G.genFunction(G.freeSlot(), pool[R.below(uint32_t(pool.size()))], 10);
        else if (R.chance(6)) G.emitChurn(all);
        else G.emitOp(ops, all);
    }
    return G.P;
}

// ---------------------------------------------------------------------------------------
// C10: copy
// ---------------------------------------------------------------------------------------
Program genC10(Rand& R, int tier)
{
    Gen G(R, tier, "C10");
    const bool rel = R.chance(50);
    int d = G.addDomain(rel);
    std::vector<int> all;
    for (auto& k : Gen::kinds()) {
        if (k.rel != rel) continue;
        int n = R.range(1, 2);
        for (int i = 0; i < n; i++) all.push_back(G.addForest(G.forestSpec(d, rel, k.range, k.label, G.randomReduction(rel), R.chance(25))));
    }
    int nf = R.range(1, 3);
    for (int i = 0; i < nf; i++) G.genFunction(i, all[R.below(uint32_t(all.size()))], 10);
    int nops = R.range(4, tier ? 30 : 16);
    for (int i = 0; i < nops; i++) {
        if (R.chance(15)) G.genFunction(G.freeSlot(), all[R.below(uint32_t(all.size()))], 10);
        else if (R.chance(25)) {
            // there and back
            int a = G.pickLive();
            if (a < 0) continue;
            int fa = G.slots[size_t(a)].f;
            int fb = all[R.below(uint32_t(all.size()))];
            int t = G.freeSlot();
            G.emit({"un", "COPY", Gen::num(a), Gen::num(t), Gen::num(fb)}); G.setLive(t, fb);
            int u = G.freeSlot();
            G.emit({"roundtrip", Gen::num(a), Gen::num(t), Gen::num(u), Gen::num(fa)}); G.setLive(u, fa);
        }
        else G.emitOp({"COPY"}, all);
    }
    return G.P;
}

// ---------------------------------------------------------------------------------------
// C02: reduction rules in every stored node (histories over all kinds and policies)
// ---------------------------------------------------------------------------------------
static void mixedHistory(Gen& G, int tier, int minSteps, int maxSteps, int churnPct)
{
    Rand& R = G.R;
    const Gen::Kind k = Gen::kinds()[R.below(uint32_t(Gen::kinds().size()))];
    int d = G.addDomain(k.rel);
    std::vector<int> pool;
    int nforests = R.range(1, 3);
    for (int i = 0; i < nforests; i++) pool.push_back(G.addForest(G.forestSpec(d, k.rel, k.range, k.label, G.randomReduction(k.rel), true)));
    std::vector<int> all = pool;
    if (k.range != 'B') all.push_back(G.addForest(G.forestSpec(d, k.rel, 'B', 'M', G.randomReduction(k.rel), true)));
    std::vector<std::string> ops;
    if (k.range == 'B') ops = cat({SETOPS, SETOPS, {"COPY", "CARD_L"}});
    else ops = cat({ARITH, CMPS, USERMAPS, {"COPY", "DIST_MIN", "DIST_INC", "MAXR", "MINR", "CARD_L"}});
    int nf = R.range(2, 5);
    for (int i = 0; i < nf; i++) G.genFunction(i, pool[R.below(uint32_t(pool.size()))], 12);
    int nops = R.range(minSteps, maxSteps);
    for (int i = 0; i < nops; i++) {
        int r = int(R.below(100));
        if (r < 18) G.genFunction(G.freeSlot(), pool[R.below(uint32_t(pool.size()))], tier ? 30 : 12);
        else if (r < 18 + churnPct) G.emitChurn(all);
        else if (G.emitOp(ops, all) && R.chance(churnPct / 3)) {
            // compute, release the result (under pessimistic deletion its nodes die at once while the cache still
            // mentions them), build something else (new nodes may take the freed handles), and ask again
            const Step last = G.P.steps.back();
            const bool bin = last[0] == "bin" && last.size() >= 6, un = last[0] == "un" && last.size() >= 5;
            if (bin || un) {
                const int dst = atoi(last[bin ? 4 : 3].c_str()), fdst = atoi(last[bin ? 5 : 4].c_str());
                G.emit({"release", Gen::num(dst)}); G.setDead(dst);
                for (int j = R.range(0, 2); j > 0; j--) G.genFunction(G.freeSlot(), pool[R.below(uint32_t(pool.size()))], 12);
                G.emit(last); G.setLive(dst, fdst);
            }
        }
    }
    // sometimes: reorder one forest's variables and keep working in it (the rules, the counts and the
    // caches must survive a non-default variable order; operations across different orders are rejected
    // by the library, so the work after the reordering stays inside that forest)
    const bool reorderable = (k.label == 'M') || (!k.rel && k.label == 'P');
    if (reorderable && R.chance(18)) {
        const int f = pool[R.below(uint32_t(pool.size()))];
        G.P.forests[size_t(f)].reorder = int(R.below(8));
        G.P.forests[size_t(f)].swap = 0;
        const int K = int(G.P.domains[size_t(d)].size());
        std::vector<int> perm;
        for (int v = 1; v <= K; v++) perm.push_back(v);
        for (int i = K; i > 1; i--) std::swap(perm[size_t(i - 1)], perm[R.below(uint32_t(i))]);
        Step s{"reorder", Gen::num(f)};
        for (int v : perm) s.push_back(Gen::num(v));
        G.emit(s);
        std::vector<std::string> inops;
        if (k.range == 'B') inops = SETOPS; else inops = cat({ARITH, {"MAXIMUM", "MINIMUM"}});
        for (int i = R.range(3, 10); i > 0; i--) {
            if (R.chance(35)) G.genFunction(G.freeSlot(), f, 12);
            else if (R.chance(20)) G.emitChurn({f});
            else G.emitOp(inops, {f});
        }
    }
}

Program genC02(Rand& R, int tier)
{
    Gen G(R, tier, "C02");
    mixedHistory(G, tier, 8, tier ? 80 : 35, 25);
    return G.P;
}

// ---------------------------------------------------------------------------------------
// C06 / C07 / C12: lifetime, compute tables, policies -- histories with heavy churn
// ---------------------------------------------------------------------------------------
// counter-width scenario: two nodes whose incoming counts need more than 16 bits at the same time,
// one of them drops back, then the handle / counter arrays are resized by node-hungry functions and
// shrunk again by a mass release
static Program genC06widths(Rand& R, int tier)
{
    Gen G(R, tier, "C06");
    G.P.domains.push_back({4, 4, 4, R.chance(50) ? 4 : 3});
    const char range = R.chance(50) ? 'I' : 'B';
    int f = G.addForest(G.forestSpec(0, false, range, 'M', "FQ"[R.below(2)], true));
    G.genCollection(0, f, 6, false);
    G.genCollection(1, f, 6, false);
    const bool both = R.chance(75);
    const long big1 = R.chance(70) ? 70000 : 300, big2 = both ? (R.chance(70) ? 66000 : 40000) : 200;
    G.emit({"hold", "0", Gen::num(big1), "0"});
    G.emit({"hold", "1", Gen::num(big2), "1"});
    if (R.chance(70)) G.emit({"unhold", "0"});
    // node-hungry functions: many distinct values => many nodes (several hundred in total)
    int hungry = R.range(4, 10);
    for (int i = 0; i < hungry; i++) {
        int n = R.range(60, 160);
        for (int j = 0; j < n; j++) G.emitMinterm(f, 0, range == 'B' ? "1" : Gen::num(1 + (j * 7 + i) % 97));
        G.emit({"coll", Gen::num(2 + i), Gen::num(f), "max", "0"});
        G.setLive(2 + i, f);
    }
    if (R.chance(60)) for (int i = 0; i < hungry; i++) if (R.chance(80)) { G.emit({"release", Gen::num(2 + i)}); G.setDead(2 + i); }
    if (R.chance(50)) G.emit({"clearct", Gen::num(f)});
    G.emit({"unhold", "1"});
    if (R.chance(50)) G.emit({"unhold", "0"});
    G.emitOp(range == 'B' ? std::vector<std::string>{"UNION", "INTERSECTION"} : std::vector<std::string>{"PLUS", "MAXIMUM"}, {f});
    G.emit({"drain"});
    return G.P;
}

Program genC06(Rand& R, int tier)
{
    if (R.chance(tier ? 10 : 6)) return genC06widths(R, tier);
    Gen G(R, tier, "C06");
    mixedHistory(G, tier, 10, tier ? 120 : 45, 40);
    // drive one node's incoming count across the 8/16-bit counter widths and back
    if (R.chance(25)) { int a = G.pickLive(); if (a >= 0) G.emit({"temps", Gen::num(a), R.chance(25) ? "70000" : "300"}); }
    if (R.chance(30)) {
        // drain in the middle, then more work
        G.emit({"drain"});
        for (auto& s : G.slots) s.live = false;
        int f = 0;
        for (int i = 0; i < 3; i++) G.genFunction(i, f, 10);
        std::vector<int> pool; for (size_t i = 0; i < G.P.forests.size(); i++) pool.push_back(int(i));
        for (int i = 0; i < 6; i++) G.emitChurn(pool);
    }
    G.emit({"drain"});
    return G.P;
}

Program genC07(Rand& R, int tier)
{
    Gen G(R, tier, "C07");
    G.randomCt(true);
    mixedHistory(G, tier, 15, tier ? 150 : 60, 35);
    return G.P;
}

Program genC12(Rand& R, int tier)
{
    Gen G(R, tier, "C12");
    mixedHistory(G, tier, 10, tier ? 80 : 35, 30);
    return G.P;
}

// ---------------------------------------------------------------------------------------
// C11: enumeration and counting
// ---------------------------------------------------------------------------------------
static void emitIter(Gen& G, int slot)
{
    Rand& R = G.R;
    const FSpec& S = G.P.forests[size_t(G.slots[size_t(slot)].f)];
    const std::vector<int>& sz = G.P.domains[size_t(S.dom)];
    Step s{"iter", Gen::num(slot)};
    if (R.chance(60)) {
        const int K = int(sz.size());
        std::vector<int> from, to;
        for (int v = 0; v < K; v++) {
            from.push_back(R.chance(45) ? int(R.below(uint32_t(sz[size_t(v)]))) : -1);
            int t = -1;
            if (R.chance(35)) t = int(R.below(uint32_t(sz[size_t(v)])));
            else if (R.chance(30)) t = -2;
            to.push_back(t);
        }
        for (int x : from) s.push_back(Gen::num(x));
        if (S.rel) for (int x : to) s.push_back(Gen::num(x));
    }
    G.emit(s);
}

Program genC11(Rand& R, int tier)
{
    Gen G(R, tier, "C11");
    const Gen::Kind k = Gen::kinds()[R.below(uint32_t(Gen::kinds().size()))];
    int d = G.addDomain(k.rel, k.rel ? 3 : 5);
    std::vector<int> pool;
    int nforests = R.range(1, 2);
    for (int i = 0; i < nforests; i++) pool.push_back(G.addForest(G.forestSpec(d, k.rel, k.range, k.label, G.randomReduction(k.rel), R.chance(50))));
    std::vector<std::string> ops;
    if (k.range == 'B') ops = {"UNION", "INTERSECTION", "DIFFERENCE", "COMPLEMENT", "COPY"};
    else ops = {"PLUS", "MINUS", "MULTIPLY", "MAXIMUM", "MINIMUM", "COPY"};
    int nf = R.range(1, 4);
    for (int i = 0; i < nf; i++) G.genFunction(i, pool[R.below(uint32_t(pool.size()))], 14);
    int nops = R.range(4, tier ? 30 : 14);
    for (int i = 0; i < nops; i++) {
        int r = int(R.below(100));
        int a = G.pickLive();
        if (a < 0 || r < 12) { G.genFunction(G.freeSlot(), pool[R.below(uint32_t(pool.size()))], 14); continue; }
        if (r < 45) emitIter(G, a);
        else if (r < 58) G.emit({"counts", Gen::num(a)});
        else if (r < 72) G.emit({"scalar", R.chance(34) ? "CARD_L" : R.chance(50) ? "CARD_D" : "CARD_Z", Gen::num(a)});
        else if (r < 80) G.emitChurn(pool);
        else G.emitOp(ops, pool);
    }
    return G.P;
}

// ---------------------------------------------------------------------------------------
// C01: canonicity -- the same function along many routes
// ---------------------------------------------------------------------------------------
namespace {
struct Recipe { std::vector<Step> mts; bool useMax; std::string deflt; int f; };

// exact-value palettes so that table equality is exact
GVal exactValue(Gen& G, const FSpec& S)
{
    Rand& R = G.R;
    GVal g;
    if (S.range == 'B') { g.k = long(R.below(2)); return g; }
    if (S.label == 'P' && R.chance(15)) { g.inf = true; return g; }
    if (S.label == 'T') { static const long pw[] = {1, 2, 4, 8, 16, 32, -1, -2, -4, -8, -16}; g.k = pw[R.below(11)]; return g; }
    if (S.range == 'R') { g.k = 4 * R.range(-6, 8); if (R.chance(30)) g.k = R.range(-12, 16); return g; }
    g.k = R.range(-5, 8);
    return g;
}

Recipe makeRecipe(Gen& G, int f)
{
    Rand& R = G.R;
    const FSpec& S = G.P.forests[size_t(f)];
    Recipe rc; rc.f = f;
    rc.useMax = R.chance(50);
    int n = R.range(0, 7);
    std::vector<GVal> pal;
    for (int i = R.range(1, 3); i > 0; i--) pal.push_back(exactValue(G, S));
    GVal lo = pal[0], hi = pal[0];
    for (auto& g : pal) { if (Gen::cmp(g, lo) < 0) lo = g; if (Gen::cmp(g, hi) > 0) hi = g; }
    GVal d;
    if (S.range == 'B') d.k = rc.useMax ? 0 : 1;
    else if (rc.useMax) { d = lo; if (!d.inf && R.chance(50)) d.k = lo.k - (S.range == 'R' ? 4 : 1); if (!d.inf && lo.k >= 0 && S.label != 'P' && R.chance(50)) d.k = 0; }
    else { d = hi; if (S.label == 'P' && R.chance(50)) d.inf = true; else if (!d.inf && R.chance(50)) d.k = hi.k + (S.range == 'R' ? 4 : 1); }
    if (S.label == 'T' && !d.inf) { /* EV*: any default is fine (0 or a power of two) */ if (R.chance(50)) d.k = 0; else if (rc.useMax ? Gen::cmp(d, lo) > 0 : Gen::cmp(d, hi) < 0) d = rc.useMax ? lo : hi; }
    if (S.label == 'T' && !d.inf && d.k == 0) { if (rc.useMax ? lo.k < 0 : hi.k > 0) d = rc.useMax ? lo : hi; }
    rc.deflt = G.tok(S, d);
    size_t before = G.P.steps.size();
    int style0 = int(R.below(4));
    for (int i = 0; i < n; i++) {
        GVal v = pal[R.below(uint32_t(pal.size()))];
        if (S.range == 'B') v.k = rc.useMax ? 1 : 0;
        int style = R.chance(70) ? style0 : int(R.below(4));
        if (!S.rel && style == 2) style = 1;
        G.emitMinterm(f, style, G.tok(S, v));
    }
    rc.mts.assign(G.P.steps.begin() + long(before), G.P.steps.end());
    G.P.steps.resize(before);
    return rc;
}

void emitRecipe(Gen& G, const Recipe& rc, int dst, int f, bool shuffle)
{
    std::vector<Step> m = rc.mts;
    if (shuffle) for (size_t i = m.size(); i > 1; i--) std::swap(m[i - 1], m[G.R.below(uint32_t(i))]);
    for (auto& s : m) G.emit(s);
    G.emit({"coll", Gen::num(dst), Gen::num(f), rc.useMax ? "max" : "min", rc.deflt});
    G.setLive(dst, f);
}
}

Program genC01(Rand& R, int tier)
{
    Gen G(R, tier, "C01");
    const Gen::Kind k = Gen::kinds()[R.below(uint32_t(Gen::kinds().size()))];
    int d = G.addDomain(k.rel, k.rel ? 2 : 4, k.rel ? 30 : 200);
    // main forest, a sibling of the same kind (other rule / policies), and forests of other kinds for detours
    int f0 = G.addForest(G.forestSpec(d, k.rel, k.range, k.label, G.randomReduction(k.rel), true));
    int f1 = G.addForest(G.forestSpec(d, k.rel, k.range, k.label, G.randomReduction(k.rel), true));
    std::vector<int> others;
    for (auto& o : Gen::kinds()) if (o.rel == k.rel && !(o.range == k.range && o.label == k.label) && R.chance(50))
        others.push_back(G.addForest(G.forestSpec(d, o.rel, o.range, o.label, G.randomReduction(o.rel), false)));
    std::vector<int> all = {f0, f1};
    all.insert(all.end(), others.begin(), others.end());
    const int MAXS = 12;
    std::vector<Recipe> recipes;
    int nrec = R.range(1, 3);
    for (int i = 0; i < nrec; i++) { recipes.push_back(makeRecipe(G, f0)); emitRecipe(G, recipes.back(), G.freeSlot(MAXS), f0, false); }
    int steps = R.range(8, tier ? 50 : 24);
    for (int i = 0; i < steps; i++) {
        int r = int(R.below(100));
        int a = G.pickLive(f0);
        if (r < 22) {                    // same recipe again: shuffled, possibly via the sibling forest
            const Recipe& rc = recipes[R.below(uint32_t(recipes.size()))];
            if (R.chance(35)) {
                int t = G.freeSlot(MAXS); emitRecipe(G, rc, t, f1, true);
                int u = G.freeSlot(MAXS); G.emit({"un", "COPY", Gen::num(t), Gen::num(u), Gen::num(f0)}); G.setLive(u, f0);
            } else emitRecipe(G, rc, G.freeSlot(MAXS), f0, true);
        } else if (r < 30) {             // split the recipe and recombine
            const Recipe& rc = recipes[R.below(uint32_t(recipes.size()))];
            Recipe h1 = rc, h2 = rc; h1.mts.clear(); h2.mts.clear();
            for (auto& m : rc.mts) (R.chance(50) ? h1 : h2).mts.push_back(m);
            int s1 = G.freeSlot(MAXS); emitRecipe(G, h1, s1, f0, true);
            int s2 = G.freeSlot(MAXS); emitRecipe(G, h2, s2, R.chance(30) ? f1 : f0, true);
            int u = G.freeSlot(MAXS);
            std::string op = k.range == 'B' ? (rc.useMax ? "UNION" : "INTERSECTION") : (rc.useMax ? "MAXIMUM" : "MINIMUM");
            G.emit({"bin", op, Gen::num(s1), Gen::num(s2), Gen::num(u), Gen::num(f0)}); G.setLive(u, f0);
        } else if (r < 52 && a >= 0) {   // algebraic detours that return the same function
            int u = G.freeSlot(MAXS);
            if (k.range == 'B') {
                int c = int(R.below(3));
                if (c == 0) { int t = G.freeSlot(MAXS); G.emit({"un", "COMPLEMENT", Gen::num(a), Gen::num(t), Gen::num(R.chance(50) ? f0 : f1)}); G.setLive(t, f0);
                              u = G.freeSlot(MAXS); G.emit({"un", "COMPLEMENT", Gen::num(t), Gen::num(u), Gen::num(f0)}); }
                else if (c == 1) G.emit({"bin", R.chance(50) ? "UNION" : "INTERSECTION", Gen::num(a), Gen::num(a), Gen::num(u), Gen::num(f0)});
                else { int b = G.pickLive(f0); int t = G.freeSlot(MAXS);
                       G.emit({"bin", "UNION", Gen::num(a), Gen::num(b), Gen::num(t), Gen::num(f0)}); G.setLive(t, f0);
                       u = G.freeSlot(MAXS); G.emit({"bin", "INTERSECTION", Gen::num(t), Gen::num(a), Gen::num(u), Gen::num(f0)}); }
            } else {
                int c = int(R.below(4));
                if (c == 0) G.emit({"bin", R.chance(50) ? "MAXIMUM" : "MINIMUM", Gen::num(a), Gen::num(a), Gen::num(u), Gen::num(f0)});
                else if (c == 1) { int z = G.freeSlot(MAXS); G.emit({"const", Gen::num(z), Gen::num(f0), "0"}); G.setLive(z, f0);
                                   u = G.freeSlot(MAXS); G.emit({"bin", "PLUS", Gen::num(a), Gen::num(z), Gen::num(u), Gen::num(f0)}); }
                else if (c == 2) { int z = G.freeSlot(MAXS); G.emit({"const", Gen::num(z), Gen::num(f0), k.range == 'R' ? "r4" : "1"}); G.setLive(z, f0);
                                   u = G.freeSlot(MAXS); G.emit({"bin", "MULTIPLY", Gen::num(a), Gen::num(z), Gen::num(u), Gen::num(f0)}); }
                else { int b = G.pickLive(f0); int t = G.freeSlot(MAXS);
                       G.emit({"bin", "PLUS", Gen::num(a), Gen::num(b), Gen::num(t), Gen::num(f0)}); G.setLive(t, f0);
                       u = G.freeSlot(MAXS); G.emit({"bin", "MINUS", Gen::num(t), Gen::num(b), Gen::num(u), Gen::num(f0)}); }
            }
            G.setLive(u, f0);
        } else if (r < 64 && a >= 0) {   // through another forest and back
            int fo = all[1 + R.below(uint32_t(all.size() - 1))];
            int t = G.freeSlot(MAXS); G.emit({"un", "COPY", Gen::num(a), Gen::num(t), Gen::num(fo)}); G.setLive(t, fo);
            int u = G.freeSlot(MAXS); G.emit({"un", "COPY", Gen::num(t), Gen::num(u), Gen::num(f0)}); G.setLive(u, f0);
        } else if (r < 72) {             // a new recipe
            recipes.push_back(makeRecipe(G, f0)); emitRecipe(G, recipes.back(), G.freeSlot(MAXS), f0, false);
        } else if (r < 80 && a >= 0) {
            int u = G.freeSlot(MAXS); if (u != a) { G.emit({"dup", Gen::num(a), Gen::num(u)}); G.setLive(u, f0); }
        } else {                         // churn: garbage, releases, cache clears
            int c = int(R.below(4));
            if (c == 0) { int g = G.freeSlot(MAXS); G.genFunction(g, f0, 10); G.emit({"release", Gen::num(g)}); G.setDead(g); }
            else if (c == 1) { int v = G.pickLive(); if (v >= 0) { G.emit({"release", Gen::num(v)}); G.setDead(v); } }
            else if (c == 2) G.emit({"clearct", Gen::num(f0)});
            else G.emit({"stales"});
        }
    }
    return G.P;
}

// ---------------------------------------------------------------------------------------
// dispatch
// ---------------------------------------------------------------------------------------
Program generate(const std::string& p, Rand& R, int tier)
{
    if (p == "C01") return genC01(R, tier);
    if (p == "C16") return genC16(R, tier);
    if (p == "C17") return genC17(R, tier);
    if (p == "C13") return genC13(R, tier);
    if (p == "C14") return genC14(R, tier);
    if (p == "C15") return genC15(R, tier);
    if (p == "C08") return genC08(R, tier);
    if (p == "C09") return genC09(R, tier);
    if (p == "C20") return genC20(R, tier);
    if (p == "C06") return genC06(R, tier);
    if (p == "C07") return genC07(R, tier);
    if (p == "C11") return genC11(R, tier);
    if (p == "C12") return genC12(R, tier);
    if (p == "C02") return genC02(R, tier);
    if (p == "C03") return genC03(R, tier);
    if (p == "C04") return genC04(R, tier);
    if (p == "C05") return genC05(R, tier);
    if (p == "C10") return genC10(R, tier);
    Program P; P.property = p;
    return P;
}

bool nontrivialRule(const std::string& p, const Labels& L)
{
    if (p == "C16") return L.has("misuse_rejected") && L.has("misuse_with_10_live_nodes");
    if (p == "C17") return L.has("forest_destroyed") && L.has("edge_detached_by_destroy") && L.has("cross_forest_op");
    if (p == "C13") return L.has("reorder_nonidentity") && L.has("reorder_2held_edges");
    if (p == "C14") return L.has("op.read") && L.has("write_2roots") && (L.has("write_terminal_root") || L.has("write_repeated_root"));
    if (p == "C15") return L.has("indexset_proper");
    if (p == "C08") return L.has("reach_2_iterations") && L.get("op.reach") >= 2;
    if (p == "C09") return (L.has("op.image") && L.has("nonconstant_result")) || L.has("vm_nonconstant_vector");
    if (p == "C20") return L.has("pregen_2events") && L.has("reach_2_iterations");
    if (p == "C01") return L.has("canon_equal_pairs") && L.has("node_death");
    if (p == "C06") return L.has("node_death") && L.has("handle_reuse") && L.has("drain_point");
    if (p == "C07") return L.has("handle_reuse") && (L.get("op.UNION") + L.get("op.INTERSECTION") + L.get("op.DIFFERENCE") + L.get("op.PLUS") + L.get("op.MINUS") + L.get("op.MULTIPLY") + L.get("op.MAXIMUM") + L.get("op.MINIMUM") + L.get("op.COPY") >= 5);
    if (p == "C11") return (L.has("iter_proper_subset") || L.has("iter_mask")) && L.has("op.iter");
    if (p == "C12") return L.has("node_death") && L.has("both_storage_forms") && L.get("policy_variants") >= 8;
    if (p == "C02") return L.has("audit_20nodes") && L.has("node_death");
    if (p == "C03") return L.has("overlap_different_values") || L.has("dont_change") || L.has("nondefault_default");
    if (p == "C04") return L.has("both_operands_nonconstant") && (L.has("cross_forest_op") || L.get("op.UNION") + L.get("op.INTERSECTION") + L.get("op.DIFFERENCE") > 3);
    if (p == "C05") return L.has("both_operands_nonconstant") && L.has("nonconstant_result");
    if (p == "C10") return L.has("op.COPY") && L.has("nonconstant_result") && (L.has("reductions_differ") || L.has("same_rule_distinct_forest"));
    return true;
}

const char* ruleText(const std::string& p)
{
    if (p == "C16") return "a valid history over two domains and forests of several kinds (so forests hold nodes and compute tables are warm) with misuse calls spliced in: operands / result forests from another domain, set/relation, labeling and range-type mismatches for the operation catalogue, compute() with a result or operand edge attached to another forest, values outside the terminal range, zero divisors met at the last point of the recursion, exhausted iterators, bad variables, minterms of another domain, getElement on a non-index edge, edges of a destroyed forest; each must raise MEDDLY::error with a code documented for that class of misuse, after which every held edge is re-evaluated, every forest audited, no node may be under-counted, and valid operations continue; non-trivial = a misuse was rejected while >= 10 nodes were live; distinct = distinct program text";
    if (p == "C17") return "1-3 domains, forests of several kinds, operations that span forests (COPY, comparisons), then forest::destroy / domain::destroy / new forests / cleanup()+initialize() with other compute-table settings in random order with work continuing in the survivors: edges of destroyed forests must be detached (no forest, node 0) and raise errors when used, forest identifiers never repeat and retired ones resolve to null, double initialize / cleanup raise the documented errors; survivors are re-evaluated, audited, and exact reference counts and cache counts recounted after every step; non-trivial = a forest was destroyed while edges were attached and after operations that span forests; distinct = distinct program text";
    if (p == "C18") return "random request/recycle sequences (50-700 operations in quick, up to 6000 in thorough; sizes from the declared minimum up to 600 slots, 15 for free-lists; popular sizes for exact fits, neighbouring releases for coalescing, growth / shrink / total-release phases) driven directly into ORIGINAL_GRID, ARRAY_PLUS_GRID, HEAP_MANAGER, MALLOC_MANAGER (4-byte slots) and FREELISTS (4- and 8-byte slots) against a reference allocator model: granted >= requested, no overlap with any live chunk (addresses re-derived after every call), sentinel contents of every live chunk intact after every call, a live handle is never returned again, isValidHandle true for live handles; non-trivial = the sequence coalesced adjacent holes and reused the remainder of a split hole (as seen by the model); distinct = distinct generated sequence";
    if (p == "C19") return "quick: boundary-stratified and random integers (incl. the range limits +-2^30, values just outside, powers of two up to 2^62) and float bit patterns (all exponents x edge mantissas, denormals, infinities, 300k random per worker), booleans, and a few values through live MT-int / MT-real / EV+ forests; thorough: the same, plus exhaustive over all 2^31 terminal integers, the 2^25 integers just outside each limit and all 2^32 float patterns; each value is encoded to a handle and decoded (reals: to the float with the last mantissa bit cleared, computed independently), zero/false must be the unique transparent handle, out-of-range integers must raise VALUE_OVERFLOW; non-trivial = |value| > 42 (not a value the test suite uses); distinct = values counted per worker (the 16 workers draw different values; boundary values are repeated by every worker)";
    if (p == "C13") return "MT set/relation (bool/int/real) and EV+ set forests with a random scheduling heuristic (8) and swap method (2); 2-5 held edges sharing nodes, a second forest over the same domain, warm compute tables; reorderVariables() to a uniformly random permutation, more operations, optionally back to the default order; every held edge is re-evaluated against its table under the new order (evaluate + own expansion), the forest is audited, other forests' orders and edges must be unchanged; non-trivial = a non-identity reordering with >= 2 held edges; distinct = distinct program text";
    if (p == "C14") return "0-8 root edges (shared sub-graphs, terminal roots, repeated roots) of a forest of any kind and policy written with mdd_writer to an in-memory stream and read back into the same forest, into another forest of the same kind with other policies (already holding nodes), or into a forest created from the file; same number and order of roots, tables equal (tolerance for reals), identical edges when read into the writing forest, audit and exact reference recount of the receiving forest afterwards; non-trivial = a read of >= 2 roots including a terminal or repeated root; distinct = distinct program text";
    if (p == "C15") return "random boolean sets (incl. empty and full) in fully-/quasi-reduced forests converted to index sets; the result must map the members in lexicographic order to 0..n-1 and everything else to +infinity (evaluate + own expansion), getElement(i) must return member i for 0<=i<n and false for -1, n, n+5, and the cardinality stored in every node must equal the members below it; non-trivial = 2 <= n < |domain|; distinct = distinct program text";
    if (p == "C08") return "random transition relations built as unions of 1-6 events (guards, self-loops, dead ends, nondeterminism, untouched variables as identity patterns) in a boolean relation forest of a random reduction rule; 1-4 initial states in a boolean / MT-int-distance / EV+-distance set forest; every offered algorithm (frontier BFS, BFS, saturation), forward and backward, several successive calls with new relations / initial sets in the same forests; results compared pointwise with an explicit BFS (reachable set and shortest distances), and results of different algorithms in one forest must be the identical edge; non-trivial = the closure needs >= 2 steps and >= 2 reachability calls ran; distinct = distinct program text";
    if (p == "C09") return "post/pre-images of boolean / MT-int-distance / EV+-distance sets under event-built and arbitrary relations of every reduction rule, compared with the explicit neighbour definition (1 + min distance, unreachable where there is none); vector-matrix and matrix-vector products of random int/real vectors and matrices compared with the explicit sum of products; non-trivial = an image with a non-constant result or a product with a non-constant vector; distinct = distinct program text";
    if (p == "C20") return "1-8 random events kept as a list, fed to partitioned saturation by events and by levels with every splitting option, compared pointwise with the explicit closure under the union of the events and (edge identity) with the monolithic reachability result in the same forest; non-trivial = >= 2 events and a closure of >= 2 steps; distinct = distinct program text";
    if (p == "C01") return "one function rebuilt along many routes in one forest (same minterms in shuffled order, split-and-recombine, algebraic detours such as double complement / (a+b)-b / x*1, copies through sibling and foreign forests and back) interleaved with garbage, releases and cache clears; after every step every pair of live edges of a forest must be == exactly when their value tables are equal; non-trivial = at least one pair of equal-table edges was compared and a node died earlier in the history; distinct = distinct program text";
    if (p == "C06") return "random histories of constructions, operations, edge copies/assignments/releases, temporaries (1..70000 copies of one edge), cache clears under optimistic/pessimistic/never policies; exact reference recount of every live node and re-evaluation of every held edge after every step; drain points (release all, clear caches) must leave only nodes reachable from library-held registered edges; non-trivial = a node died, a handle was reused and a drain point ran; distinct = distinct program text";
    if (p == "C07") return "random histories under a random compute-table configuration (4 styles x 3 stale policies x max sizes x compression) with releases, stale removal and cache clears; every operation result and every held edge checked against the model after every step, and every node's cache count compared with a recount of the table entries; non-trivial = a node handle was reused and at least 5 cached operations ran; distinct = distinct program text";
    if (p == "C11") return "random functions of every forest kind, iterated with and without random masks (fixed / free / unchanged positions) and counted; visited sequence must be exactly the non-default assignments under the mask in lexicographic order with the function's values; cardinality in long/double/mpz, node and edge counts against the harness' own traversal; non-trivial = an iteration over a proper non-empty subset or under a mask; distinct = distinct program text";
    if (p == "C12") return "one random history executed once per storage x memory-manager x deletion combination (covering sample of 12 in quick, all 36 in thorough); tables must equal the model in every run, and handle-free canonical forms and node counts of every produced edge must be identical across runs, with a structural audit after every step; non-trivial = a node died, both storage forms occurred, >= 8 variants compared; distinct = distinct program text";
    if (p == "C02") return "random histories (build/operate/copy/release/clear caches) over all forest kinds, reduction rules and the 36 storage x memory-manager x deletion policies, whole-forest structural audit after every step; non-trivial = some audited forest held >= 20 nodes and at least one node died earlier in the history; distinct = distinct program text";
    if (p == "C03") return "random minterm collections / single minterms / constants / variable functions in one forest of a random kind, reduction rule and policy; compared pointwise with a reference matcher through evaluate() and through an independent expansion of the diagram; non-trivial = overlapping minterms with different values, or a DONT_CHANGE position, or a non-transparent default; distinct = distinct program text";
    if (p == "C04") return "random programs of union/intersection/difference/complement/cross over pools holding two distinct boolean forests per reduction rule; result and operands checked pointwise; non-trivial = an operation with two non-constant operands and (operands/result in different forests or a compute table warmed by >3 earlier set operations); distinct = distinct program text";
    if (p == "C05") return "random programs of arithmetic, comparison, min/max, dist-min, dist-inc, user maps and range queries over MT int/real, EV+ and EV* forests (two distinct forests per reduction rule); pointwise scalar semantics incl. +infinity and documented errors; non-trivial = an operation with two non-constant operands and a non-constant result; distinct = distinct program text";
    if (p == "C10") return "random functions copied between every pair of same-shape forest kinds and back; target compared pointwise with the converted source table, round trips must return the identical edge when the conversion is injective on the values used; non-trivial = non-constant function copied across different reduction rules or distinct forests of one rule; distinct = distinct program text";
    return "generated cases";
}

} // namespace mv
