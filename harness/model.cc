// model.cc -- values, tables, world (domains / forests / slots)
#include "mv.h"
#include <cmath>

namespace mv {

bool sameVal(const Val& a, const Val& b)
{
    if (a.t == VUN || b.t == VUN) return true;
    if (a.t == VNEG || b.t == VNEG) {
        const Val& o = (a.t == VNEG) ? b : a;
        return o.t == VNEG || (o.t == VI && o.i < 0);
    }
    if (a.t == VINF || b.t == VINF) return a.t == b.t;
    if (a.t == VI && b.t == VI) return a.i == b.i;
    double x = a.num(), y = b.num();
    double mag = std::fabs(y);
    if (a.s > mag) mag = a.s;
    if (b.s > mag) mag = b.s;
    double tol = 1e-5 + 1e-5 * mag;
    return std::fabs(x - y) <= tol;
}

bool exactVal(const Val& a, const Val& b)
{
    if (a.t != b.t) return false;
    if (a.t == VI) return a.i == b.i;
    if (a.t == VR) return a.d == b.d;
    return true;
}

std::string showVal(const Val& v)
{
    char buf[64];
    switch (v.t) {
        case VI: snprintf(buf, sizeof buf, "%ld", v.i); break;
        case VR: snprintf(buf, sizeof buf, "%.9g", v.d); break;
        case VINF: return "inf";
        default: return "?";
    }
    return buf;
}

std::string tokVal(const Val& v)
{
    char buf[64];
    switch (v.t) {
        case VI: snprintf(buf, sizeof buf, "%ld", v.i); return buf;
        case VR: snprintf(buf, sizeof buf, "r%ld", long(std::lround(v.d * 4.0))); return buf;
        case VINF: return "inf";
        default: return "?";
    }
}

bool parseVal(const std::string& tok, char range, Val& out)
{
    if (tok.empty()) return false;
    if (tok == "inf") { out = Val::Inf(); return true; }
    char* end = nullptr;
    if (tok[0] == 'r') {
        long k = strtol(tok.c_str() + 1, &end, 10);
        if (*end) return false;
        out = Val::R(double(k) / 4.0);
        if (range != 'R') out = Val::I(k);
        return true;
    }
    long k = strtol(tok.c_str(), &end, 10);
    if (*end) return false;
    if (range == 'R') out = Val::R(double(k));
    else if (range == 'B') out = Val::I(k ? 1 : 0);
    else out = Val::I(k);
    return true;
}

Val fromRangeval(const MEDDLY::rangeval& r)
{
    if (r.isPlusInfinity()) return Val::Inf();
    if (r.isBoolean()) return Val::I(bool(r) ? 1 : 0);
    if (r.isInteger()) return Val::I(long(r));
    return Val::R(double(r));
}

MEDDLY::rangeval toRangeval(const Val& v, char range)
{
    using namespace MEDDLY;
    if (v.t == VINF)
        return rangeval(range_special::PLUS_INFINITY,
                        range == 'R' ? range_type::REAL : range_type::INTEGER);
    switch (range) {
        case 'B': return rangeval(bool(v.num() != 0));
        case 'I': return rangeval(long(v.t == VR ? long(v.d) : v.i));
        default:  return rangeval(double(v.num()));
    }
}

std::string FSpec::text() const
{
    char buf[160];
    snprintf(buf, sizeof buf, "dom=%d rel=%d range=%c label=%c red=%c stor=%d mm=%d del=%c reorder=%d swap=%d",
             dom, rel ? 1 : 0, range, label, red, stor, mm, del, reorder, swap);
    return buf;
}

// ---------------------------------------------------------------------------------------

void World::start(const CtSpec& c)
{
    using namespace MEDDLY;
    ct = c;
    initializer_list* IL = defaultInitializerList(nullptr);
    switch (c.style) {
        case 0: ct_initializer::setBuiltinStyle(ct_initializer::MonolithicChainedHash); break;
        case 1: ct_initializer::setBuiltinStyle(ct_initializer::MonolithicUnchainedHash); break;
        case 2: ct_initializer::setBuiltinStyle(ct_initializer::OperationChainedHash); break;
        default: ct_initializer::setBuiltinStyle(ct_initializer::OperationUnchainedHash); break;
    }
    switch (c.stale) {
        case 0: ct_initializer::setStaleRemoval(staleRemovalOption::Aggressive); break;
        case 1: ct_initializer::setStaleRemoval(staleRemovalOption::Moderate); break;
        default: ct_initializer::setStaleRemoval(staleRemovalOption::Lazy); break;
    }
    if (c.maxsize > 0) ct_initializer::setMaxSize((unsigned long) c.maxsize);
    ct_initializer::setCompression(c.compress ? compressionOption::TypeBased
                                              : compressionOption::None);
    MEDDLY::initialize(IL);
    inited = true;
}

int World::addDomain(const std::vector<int>& sizes1)
{
    Dom D;
    D.sizes.push_back(0);
    for (int s : sizes1) D.sizes.push_back(s);
    D.d = MEDDLY::domain::createBottomUp(sizes1.data(), unsigned(sizes1.size()));
    doms.push_back(D);
    return int(doms.size()) - 1;
}

int World::addForest(const FSpec& s)
{
    using namespace MEDDLY;
    policies p(s.rel);
    p.useDefaults(s.rel);
    switch (s.red) {
        case 'F': p.setFullyReduced(); break;
        case 'Q': p.setQuasiReduced(); break;
        default:  p.setIdentityReduced(); break;
    }
    p.storage_flags = node_storage_flags(s.stor);
    switch (s.mm) {
        case 0: p.nodemm = ORIGINAL_GRID; break;
        case 1: p.nodemm = ARRAY_PLUS_GRID; break;
        case 2: p.nodemm = MALLOC_MANAGER; break;
        default: p.nodemm = HEAP_MANAGER; break;
    }
    switch (s.del) {
        case 'P': p.setPessimistic(); break;
        case 'N': p.setNeverDelete(); break;
        default:  p.setOptimistic(); break;
    }
    p.reorder = policies::reordering_type(s.reorder);
    p.swap = s.swap ? policies::variable_swap_type::LEVEL : policies::variable_swap_type::VAR;
    range_type rt = s.range == 'B' ? range_type::BOOLEAN
                  : s.range == 'I' ? range_type::INTEGER : range_type::REAL;
    edge_labeling el = s.label == 'M' ? edge_labeling::MULTI_TERMINAL
                     : s.label == 'P' ? edge_labeling::EVPLUS
                     : s.label == 'T' ? edge_labeling::EVTIMES : edge_labeling::INDEX_SET;
    forest* f = nullptr;
    try {
        f = forest::create(doms[s.dom].d, s.rel, rt, el, p);
    } catch (MEDDLY::error& e) {
        f = nullptr;
    }
    fs.push_back(s);
    F.push_back(f);
    return f ? int(F.size()) - 1 : -1;
}

void World::release(int slot)
{
    if (slot < 0 || slot >= int(slots.size())) return;
    Slot& S = slots[slot];
    delete S.e;
    S.e = nullptr;
    S.f = -1;
    S.T.clear();
}

void World::setSlot(int slot, int f, MEDDLY::dd_edge* e, const Table& T)
{
    if (slot >= int(slots.size())) slots.resize(slot + 1);
    Slot& S = slots[slot];
    delete S.e;
    S.e = e;
    S.f = f;
    S.T = T;
}

void World::stop()
{
    for (auto& S : slots) { delete S.e; S.e = nullptr; }
    slots.clear();
    if (inited) {
        MEDDLY::cleanup();
        inited = false;
    }
    F.clear(); fs.clear(); doms.clear();
}

World::~World()
{
    // a failing run leaves the library as it is: the process exits anyway
}

Val World::transparent(int f) const
{
    const FSpec& s = fs[f];
    if (s.label == 'P' || s.label == 'X') return Val::Inf();
    if (s.range == 'R') return Val::R(0.0);
    return Val::I(0);
}

void World::decode(int f, long idx, std::vector<int>& from, std::vector<int>& to) const
{
    const Dom& D = domOf(f);
    const int K = D.K();
    from.assign(K + 1, 0);
    to.assign(K + 1, 0);
    long n = D.nstates();
    long fi = fs[f].rel ? idx / n : idx;
    long ti = fs[f].rel ? idx % n : 0;
    for (int v = 1; v <= K; v++) {
        from[v] = int(fi % D.sizes[v]); fi /= D.sizes[v];
        to[v] = int(ti % D.sizes[v]); ti /= D.sizes[v];
    }
}

long World::encode(int f, const std::vector<int>& from, const std::vector<int>& to) const
{
    const Dom& D = domOf(f);
    const int K = D.K();
    long fi = 0, ti = 0;
    for (int v = K; v >= 1; v--) {
        fi = fi * D.sizes[v] + from[v];
        if (fs[f].rel) ti = ti * D.sizes[v] + to[v];
    }
    return fs[f].rel ? fi * D.nstates() + ti : fi;
}

void World::fillMinterm(int f, MEDDLY::minterm& m, const std::vector<int>& from,
                        const std::vector<int>& to) const
{
    const int K = domOf(f).K();
    MEDDLY::forest* FF = F[f];
    for (int v = 1; v <= K; v++) {
        int lvl = FF->getLevelByVar(v);
        if (fs[f].rel) m.setVars(unsigned(lvl), from[v], to[v]);
        else m.setVar(unsigned(lvl), from[v]);
    }
}

} // namespace mv
