// interp_reach.cc -- reachability, one-step images, vector-matrix products, partitioned saturation
#include "interp.h"
#include <algorithm>
#include <cmath>
#include <deque>

using namespace MEDDLY;

namespace mv {

static int toInt(const std::string& s) { return atoi(s.c_str()); }

namespace {

struct Graph {
    long n = 0;
    std::vector<std::vector<int>> succ, pred;
};

// explicit graph of a boolean relation table (index = from * n + to)
bool graphOf(const Table& T, long n, Graph& G)
{
    G.n = n;
    G.succ.assign(size_t(n), {}); G.pred.assign(size_t(n), {});
    for (long x = 0; x < n; x++) for (long y = 0; y < n; y++) {
        const Val& v = T[size_t(x * n + y)];
        if (v.isUn()) return false;
        if (v.num() != 0) { G.succ[size_t(x)].push_back(int(y)); G.pred[size_t(y)].push_back(int(x)); }
    }
    return true;
}

enum SetKind { SK_BOOL, SK_MTINT, SK_EVP, SK_BAD };

SetKind setKind(const FSpec& S)
{
    if (S.rel) return SK_BAD;
    if (S.label == 'M' && S.range == 'B') return SK_BOOL;
    if (S.label == 'M' && S.range == 'I') return SK_MTINT;
    if (S.label == 'P') return SK_EVP;
    return SK_BAD;
}

const long UNREACH = -1;

// initial distances from a set table: -1 unreachable; false if the table is outside the sound domain
bool initialDistances(SetKind k, const Table& T, std::vector<long>& d, bool requireZero)
{
    d.assign(T.size(), UNREACH);
    for (size_t i = 0; i < T.size(); i++) {
        const Val& v = T[i];
        if (v.isUn()) return false;
        switch (k) {
            case SK_BOOL: if (v.i) d[i] = 0; break;
            case SK_MTINT: if (v.t == VNEG) break; if (v.i >= 0) { if (requireZero && v.i != 0) return false; d[i] = v.i; } break;
            case SK_EVP: if (!v.isInf()) { if (v.i < 0) return false; if (requireZero && v.i != 0) return false; d[i] = v.i; } break;
            default: return false;
        }
    }
    return true;
}

Table distancesToTable(SetKind k, const std::vector<long>& d)
{
    Table T(d.size());
    for (size_t i = 0; i < d.size(); i++) {
        switch (k) {
            case SK_BOOL: T[i] = Val::I(d[i] >= 0 ? 1 : 0); break;
            case SK_MTINT: T[i] = d[i] >= 0 ? Val::I(d[i]) : Val::Neg(); break;
            default: T[i] = d[i] >= 0 ? Val::I(d[i]) : Val::Inf(); break;
        }
    }
    return T;
}

// shortest distances (unit steps) from the initial distances along adj
std::vector<long> closure(const std::vector<long>& d0, const std::vector<std::vector<int>>& adj, long& iterations)
{
    std::vector<long> d = d0;
    std::deque<int> q;
    for (size_t i = 0; i < d.size(); i++) if (d[i] == 0) q.push_back(int(i));
    // all initial distances are 0 here (checked by the caller), so plain BFS
    long maxd = 0;
    while (!q.empty()) {
        int x = q.front(); q.pop_front();
        for (int y : adj[size_t(x)]) if (d[size_t(y)] < 0) { d[size_t(y)] = d[size_t(x)] + 1; if (d[size_t(y)] > maxd) maxd = d[size_t(y)]; q.push_back(y); }
    }
    iterations = maxd;
    return d;
}

std::string relLabel(const FSpec& R) { return std::string("rel") + R.red; }
std::string setLabel(SetKind k, const FSpec& S) { return std::string(k == SK_BOOL ? "bool" : k == SK_MTINT ? "mtint" : "evp") + S.red; }

bool sameOrder(World& W, int fa, int fb)
{
    std::vector<int> oa(size_t(W.domOf(fa).K()) + 1), ob(oa.size());
    W.F[fa]->getVariableOrder(oa.data()); W.F[fb]->getVariableOrder(ob.data());
    return oa == ob;
}

} // namespace

// Known findings that sit in front of the campaign (known_findings.json) are excluded by
// construction here and counted under the label excluded.*; a program with a `strict` step
// (the corpus replays of the findings) is not subject to the exclusion.
bool Interp::excludedCombo(const char* family, const std::string& combo, const std::string& alg,
                           const FSpec& relSpec, int setKind) const
{
    (void) combo;
    const std::string fam = family;
    // KF-C08-satur-nonidentity-relation: monolithic saturation is only right for identity-reduced
    // relation forests (the only rule the suite runs); with a quasi-reduced relation it walks below
    // level 1 or returns a wrong set, with a fully-reduced one distance-valued results are wrong
    if (fam == "reach" && alg == "SATUR") {
        (void) setKind;
        if (relSpec.red != 'I') return true;
    }
    return false;
}

// reach ALG fwd init rel dst f
static bool doReach(Interp& I, const Step& s)
{
    World& W = I.W;
    if (s.size() < 7) { I.skip("reach-short"); return true; }
    const std::string& alg = s[1];
    const bool fwd = toInt(s[2]) != 0;
    const int init = toInt(s[3]), rel = toInt(s[4]), dst = toInt(s[5]), fc = toInt(s[6]);
    if (!I.liveSlot(init) || !I.liveSlot(rel) || dst < 0 || dst > 63 || !I.okForest(fc)) { I.skip("reach-operands"); return true; }
    const int fi = W.slots[size_t(init)].f, fr = W.slots[size_t(rel)].f;
    const FSpec &SI = W.fs[fi], &SR = W.fs[fr], &SC = W.fs[fc];
    if (SI.dom != SR.dom || SI.dom != SC.dom) { I.skip("reach-domain"); return true; }
    const SetKind k = setKind(SI);
    if (k == SK_BAD || setKind(SC) != k) { I.skip("reach-setkind"); return true; }
    if (!SR.rel || SR.label != 'M' || SR.range != 'B') { I.skip("reach-relkind"); return true; }
    if (!sameOrder(W, fi, fr) || !sameOrder(W, fi, fc)) { I.skip("reach-order"); return true; }
    const long n = W.domOf(fi).nstates();
    Graph G;
    if (!graphOf(W.slots[size_t(rel)].T, n, G)) { I.skip("reach-unspec"); return true; }
    std::vector<long> d0;
    if (!initialDistances(k, W.slots[size_t(init)].T, d0, true)) { I.skip("reach-init"); return true; }
    long iters = 0;
    std::vector<long> d = closure(d0, fwd ? G.succ : G.pred, iters);
    Table T = distancesToTable(k, d);

    // known finding KF-C08-satur-nonidentity-relation (see known_findings.json): excluded unless strict
    const std::string combo = alg + "." + (fwd ? "fwd" : "bwd") + "." + relLabel(SR) + "." + setLabel(k, SI);
    if (!I.strictErrors && I.excludedCombo("reach", combo, alg, SR, k)) { I.R.labels.add("excluded.reach." + combo); return true; }

    binary_operation* bop = nullptr;
    try {
        if (alg == "TRAD_FS") bop = REACHABLE_TRAD_FS(fwd).build(W.F[fi], W.F[fr], W.F[fc]);
        else if (alg == "TRAD_NOFS") bop = REACHABLE_TRAD_NOFS(fwd).build(W.F[fi], W.F[fr], W.F[fc]);
        else if (alg == "SATUR") bop = REACHABLE_SATUR(fwd, 1).build(W.F[fi], W.F[fr], W.F[fc]);
        else { I.skip("reach-alg"); return true; }
    } catch (MEDDLY::error& er) {
        if (er.getCode() == error::TYPE_MISMATCH || er.getCode() == error::NOT_IMPLEMENTED) { I.R.labels.add("unsupported.reach." + combo); return true; }
        return I.fail("exception", "build(REACHABLE " + alg + ") threw " + er.getName());
    }
    if (!bop) { I.R.labels.add("unsupported.reach." + combo); return true; }
    // optional token "inplace": the result edge is (a copy of) the initial-set edge, apply(REACHABLE, x, rel, x)
    const bool inplace = s.size() > 7 && s[7] == "inplace" && fi == fc;
    dd_edge* e = inplace ? new dd_edge(*W.slots[size_t(init)].e) : new dd_edge(W.F[fc]);
    if (inplace) I.R.labels.add("result_aliases_operand");
    dd_edge beforeI(*W.slots[size_t(init)].e), beforeR(*W.slots[size_t(rel)].e);
    try {
        bop->compute(inplace ? *e : *W.slots[size_t(init)].e, *W.slots[size_t(rel)].e, *e);
    } catch (MEDDLY::error& er) {
        delete e;
        return I.fail("exception", "REACHABLE " + combo + " threw " + er.getName());
    }
    if (!(beforeI == *W.slots[size_t(init)].e) || !(beforeR == *W.slots[size_t(rel)].e)) { delete e; return I.fail("operand-changed", "reachability changed an operand edge"); }
    I.R.labels.add("op.reach." + combo);
    I.R.labels.add("op.reach");
    if (iters >= 2) I.R.labels.add("reach_2_iterations");
    I.R.reachCalls++;
    if (I.R.reachCalls >= 2) I.R.labels.add("reach_repeated_call");
    return I.produce(dst, fc, e, T, ("REACHABLE " + combo).c_str());
}

// image PRE|POST set rel dst f
static bool doImage(Interp& I, const Step& s)
{
    World& W = I.W;
    if (s.size() < 6) { I.skip("image-short"); return true; }
    const bool post = s[1] == "POST";
    const int set = toInt(s[2]), rel = toInt(s[3]), dst = toInt(s[4]), fc = toInt(s[5]);
    if (!I.liveSlot(set) || !I.liveSlot(rel) || dst < 0 || dst > 63 || !I.okForest(fc)) { I.skip("image-operands"); return true; }
    const int fs = W.slots[size_t(set)].f, fr = W.slots[size_t(rel)].f;
    const FSpec &SS = W.fs[fs], &SR = W.fs[fr], &SC = W.fs[fc];
    if (SS.dom != SR.dom || SS.dom != SC.dom) { I.skip("image-domain"); return true; }
    const SetKind k = setKind(SS);
    if (k == SK_BAD || setKind(SC) != k) { I.skip("image-setkind"); return true; }
    if (!SR.rel || SR.label != 'M' || SR.range != 'B') { I.skip("image-relkind"); return true; }
    if (!sameOrder(W, fs, fr) || !sameOrder(W, fs, fc)) { I.skip("image-order"); return true; }
    const long n = W.domOf(fs).nstates();
    Graph G;
    if (!graphOf(W.slots[size_t(rel)].T, n, G)) { I.skip("image-unspec"); return true; }
    std::vector<long> d0;
    if (!initialDistances(k, W.slots[size_t(set)].T, d0, false)) { I.skip("image-set"); return true; }
    // result(y) = 1 + min d0(x) over neighbours x with a distance; none -> unreachable
    std::vector<long> d(size_t(n), UNREACH);
    const auto& nb = post ? G.pred : G.succ;
    for (long y = 0; y < n; y++) {
        long best = -1;
        for (int x : nb[size_t(y)]) if (d0[size_t(x)] >= 0 && (best < 0 || d0[size_t(x)] < best)) best = d0[size_t(x)];
        if (best >= 0) d[size_t(y)] = (k == SK_BOOL) ? 0 : best + 1;
    }
    Table T = distancesToTable(k, d);
    const std::string combo = std::string(post ? "POST" : "PRE") + "." + relLabel(SR) + "." + setLabel(k, SS);
    binary_operation* bop = nullptr;
    try {
        bop = (post ? POST_IMAGE() : PRE_IMAGE()).build(W.F[fs], W.F[fr], W.F[fc]);
    } catch (MEDDLY::error& er) {
        if (er.getCode() == error::TYPE_MISMATCH || er.getCode() == error::NOT_IMPLEMENTED) { I.R.labels.add("unsupported.image." + combo); return true; }
        return I.fail("exception", "build(IMAGE) threw " + std::string(er.getName()));
    }
    if (!bop) { I.R.labels.add("unsupported.image." + combo); return true; }
    const bool inplace = s.size() > 6 && s[6] == "inplace" && fs == fc;
    dd_edge* e = inplace ? new dd_edge(*W.slots[size_t(set)].e) : new dd_edge(W.F[fc]);
    if (inplace) I.R.labels.add("result_aliases_operand");
    dd_edge beforeS(*W.slots[size_t(set)].e), beforeR(*W.slots[size_t(rel)].e);
    try {
        bop->compute(inplace ? *e : *W.slots[size_t(set)].e, *W.slots[size_t(rel)].e, *e);
    } catch (MEDDLY::error& er) {
        delete e;
        return I.fail("exception", "IMAGE " + combo + " threw " + er.getName());
    }
    if (!(beforeS == *W.slots[size_t(set)].e) || !(beforeR == *W.slots[size_t(rel)].e)) { delete e; return I.fail("operand-changed", "image changed an operand edge"); }
    I.R.labels.add("op.image." + combo);
    I.R.labels.add("op.image");
    return I.produce(dst, fc, e, T, ("IMAGE " + combo).c_str());
}

// vm VM|MV vec mat dst f
static bool doVecMat(Interp& I, const Step& s)
{
    World& W = I.W;
    if (s.size() < 6) { I.skip("vm-short"); return true; }
    const bool vm = s[1] == "VM";
    const int vec = toInt(s[2]), mat = toInt(s[3]), dst = toInt(s[4]), fc = toInt(s[5]);
    if (!I.liveSlot(vec) || !I.liveSlot(mat) || dst < 0 || dst > 63 || !I.okForest(fc)) { I.skip("vm-operands"); return true; }
    const int fv = W.slots[size_t(vec)].f, fm = W.slots[size_t(mat)].f;
    const FSpec &SV = W.fs[fv], &SM = W.fs[fm], &SC = W.fs[fc];
    if (SV.dom != SM.dom || SV.dom != SC.dom) { I.skip("vm-domain"); return true; }
    if (SV.rel || !SM.rel || SC.rel) { I.skip("vm-shape"); return true; }
    if (SV.label != 'M' || SM.label != 'M' || SC.label != 'M') { I.skip("vm-label"); return true; }
    if (SV.range == 'B' || SV.range != SM.range || SV.range != SC.range) { I.skip("vm-range"); return true; }
    if (!sameOrder(W, fv, fm) || !sameOrder(W, fv, fc)) { I.skip("vm-order"); return true; }
    const long n = W.domOf(fv).nstates();
    const Table &X = W.slots[size_t(vec)].T, &M = W.slots[size_t(mat)].T;
    for (auto& v : X) if (v.isUn() || v.t == VNEG) { I.skip("vm-unspec"); return true; }
    for (auto& v : M) if (v.isUn() || v.t == VNEG) { I.skip("vm-unspec"); return true; }
    const bool real = SV.range == 'R';
    Table T;
    T.resize(size_t(n));
    for (long j = 0; j < n; j++) {
        double acc = 0; long iacc = 0; double mag = 0;
        for (long i = 0; i < n; i++) {
            const Val& m = vm ? M[size_t(i * n + j)] : M[size_t(j * n + i)];
            const Val& x = X[size_t(i)];
            if (real) { acc += x.num() * m.num(); mag += std::fabs(x.num() * m.num()); }
            else iacc += x.i * m.i;
        }
        // every partial sum is rounded to the terminal precision (1e-5) when its node is created
        if (real) { T[size_t(j)] = Val::R(acc); T[size_t(j)].s = mag + double(n); if (std::fabs(acc) > 1e6) { I.skip("vm-range-limit"); return true; } }
        else { T[size_t(j)] = Val::I(iacc); if (std::labs(iacc) > (1L << 29)) { I.skip("vm-range-limit"); return true; } }
    }
    binary_operation* bop = nullptr;
    const std::string combo = std::string(vm ? "VM" : "MV") + "." + SV.range + ".vec" + SV.red + ".mat" + SM.red;
    try {
        bop = vm ? VM_MULTIPLY().build(W.F[fv], W.F[fm], W.F[fc]) : MV_MULTIPLY().build(W.F[fm], W.F[fv], W.F[fc]);
    } catch (MEDDLY::error& er) {
        if (er.getCode() == error::TYPE_MISMATCH || er.getCode() == error::NOT_IMPLEMENTED) { I.R.labels.add("unsupported.vm." + combo); return true; }
        return I.fail("exception", "build(VM/MV) threw " + std::string(er.getName()));
    }
    if (!bop) { I.R.labels.add("unsupported.vm." + combo); return true; }
    const bool inplace = s.size() > 6 && s[6] == "inplace" && fv == fc;
    dd_edge* e = inplace ? new dd_edge(*W.slots[size_t(vec)].e) : new dd_edge(W.F[fc]);
    if (inplace) I.R.labels.add("result_aliases_operand");
    try {
        if (vm) bop->compute(inplace ? *e : *W.slots[size_t(vec)].e, *W.slots[size_t(mat)].e, *e);
        else bop->compute(*W.slots[size_t(mat)].e, inplace ? *e : *W.slots[size_t(vec)].e, *e);
    } catch (MEDDLY::error& er) {
        delete e;
        return I.fail("exception", combo + " threw " + er.getName());
    }
    I.R.labels.add("op.vm." + combo);
    I.R.labels.add("op.vm");
    bool constant = true;
    for (size_t i = 1; i < X.size(); i++) if (!exactVal(X[i], X[0])) { constant = false; break; }
    if (!constant) I.R.labels.add("vm_nonconstant_vector");
    return I.produce(dst, fc, e, T, combo.c_str());
}

// event slot        (push a relation slot as an event)
// pregen byevents|bylevels SPLIT fwd init dst f
static bool doPregen(Interp& I, const Step& s)
{
    World& W = I.W;
    std::vector<int> events;
    events.swap(I.pendingEvents);
    if (s.size() < 7) { I.skip("pregen-short"); return true; }
    const bool byLevels = s[1] == "bylevels";
    const std::string& split = s[2];
    const bool fwd = toInt(s[3]) != 0;
    const int init = toInt(s[4]), dst = toInt(s[5]), fc = toInt(s[6]);
    if (!I.liveSlot(init) || dst < 0 || dst > 63 || !I.okForest(fc)) { I.skip("pregen-operands"); return true; }
    const int fi = W.slots[size_t(init)].f;
    const FSpec& SI = W.fs[fi];
    if (fi != fc) { I.skip("pregen-forests"); return true; }            // documented: in-forest == out-forest
    if (setKind(SI) != SK_BOOL) { I.skip("pregen-setkind"); return true; }
    // events: live boolean MT relations of one identity-reduced forest over the same domain
    int fr = -1;
    std::vector<int> ev;
    for (int sl : events) {
        if (!I.liveSlot(sl)) continue;
        const int f = W.slots[size_t(sl)].f;
        const FSpec& SR = W.fs[f];
        if (!SR.rel || SR.label != 'M' || SR.range != 'B' || SR.dom != SI.dom) continue;
        if (fr < 0) fr = f;
        if (f != fr) continue;
        ev.push_back(sl);
    }
    if (fr < 0 || ev.empty()) { I.skip("pregen-noevents"); return true; }
    const FSpec& SR = W.fs[fr];
    if (SR.red != 'I') { I.skip("pregen-rel-not-identity"); return true; }   // every caller uses the identity-reduced default
    if (!sameOrder(W, fi, fr)) { I.skip("pregen-order"); return true; }
    const long n = W.domOf(fi).nstates();
    // union relation
    Table U(size_t(n * n), Val::I(0));
    for (int sl : ev) {
        const Table& T = W.slots[size_t(sl)].T;
        for (size_t i = 0; i < T.size(); i++) { if (T[i].isUn()) { I.skip("pregen-unspec"); return true; } if (T[i].num() != 0) U[i] = Val::I(1); }
    }
    Graph G;
    graphOf(U, n, G);
    std::vector<long> d0;
    if (!initialDistances(SK_BOOL, W.slots[size_t(init)].T, d0, true)) { I.skip("pregen-init"); return true; }
    long iters = 0;
    std::vector<long> d = closure(d0, fwd ? G.succ : G.pred, iters);
    Table T = distancesToTable(SK_BOOL, d);

    pregen_relation::splittingOption so = pregen_relation::SplitSubtract;
    if (split == "None") so = pregen_relation::None;
    else if (split == "SplitOnly") so = pregen_relation::SplitOnly;
    else if (split == "SplitSubtract") so = pregen_relation::SplitSubtract;
    else if (split == "SplitSubtractAll") so = pregen_relation::SplitSubtractAll;
    else if (split == "MonolithicSplit") so = pregen_relation::MonolithicSplit;
    else { I.skip("pregen-split"); return true; }
    const std::string combo = std::string(byLevels ? "bylevels" : "byevents") + "." + (fwd ? "fwd." : "bwd.") + split + "." + setLabel(SK_BOOL, SI);
    if (!I.strictErrors && I.excludedCombo("pregen", combo, split, SR, SI.red == 'F' ? -'F' : int(SK_BOOL))) { I.R.labels.add("excluded.pregen." + combo); return true; }

    // optional tokens after the forest: "inplace" (result edge is a copy of the initial-set edge),
    // "again" (a second compute() on the same saturation operation / relation object must give the same edge)
    bool inplace = false, again = false;
    for (size_t t = 7; t < s.size(); t++) { if (s[t] == "inplace") inplace = true; if (s[t] == "again") again = true; }
    dd_edge* e = inplace ? new dd_edge(*W.slots[size_t(init)].e) : new dd_edge(W.F[fc]);
    if (inplace) I.R.labels.add("result_aliases_operand");
    bool againDiffers = false;
    try {
        pregen_relation* rel = byLevels ? new pregen_relation(W.F[fr]) : new pregen_relation(W.F[fr], unsigned(ev.size()));
        for (int sl : ev) rel->addToRelation(*W.slots[size_t(sl)].e);
        rel->finalize(so);
        saturation_operation* sat = fwd ? SATURATION_FORWARD(W.F[fi], rel, W.F[fc])
                                        : SATURATION_BACKWARD(W.F[fi], rel, W.F[fc]);
        if (!sat) { delete rel; delete e; I.R.labels.add("unsupported.pregen." + combo); return true; }
        sat->compute(inplace ? *e : *W.slots[size_t(init)].e, *e);
        if (again) {
            dd_edge e2(W.F[fc]);
            sat->compute(*W.slots[size_t(init)].e, e2);
            againDiffers = !(e2 == *e);
            I.R.labels.add("pregen_second_compute");
        }
        operation::destroy(sat);
    } catch (MEDDLY::error& er) {
        delete e;
        return I.fail("exception", "partitioned saturation (" + combo + ") threw " + er.getName());
    }
    if (againDiffers) { delete e; return I.fail("C20.second-call", "a second compute() on the same saturation operation (" + combo + ") returned a different edge"); }
    I.R.labels.add("op.pregen." + combo);
    I.R.labels.add("op.pregen");
    if (ev.size() >= 2) I.R.labels.add("pregen_2events");
    if (iters >= 2) I.R.labels.add("reach_2_iterations");
    if (!I.produce(dst, fc, e, T, ("SATURATION_FORWARD " + combo).c_str())) return false;
    return true;
}

bool doReachFamily(Interp& I, const Step& s, bool& handled)
{
    handled = true;
    const std::string& op = s[0];
    if (op == "reach") return doReach(I, s);
    if (op == "image") return doImage(I, s);
    if (op == "vm") return doVecMat(I, s);
    if (op == "event") { if (s.size() > 1) I.pendingEvents.push_back(toInt(s[1])); return true; }
    if (op == "pregen") return doPregen(I, s);
    handled = false;
    return true;
}

} // namespace mv
