// main_mvh.cc -- command-line driver
//   mvh gen --property Cxx --seed S --cases N --worker i --workers W --out DIR [--tier quick|thorough]
//   mvh replay FILE [--property Cxx]
//   mvh show --property Cxx --seed S --index k        (print a generated program)
#include "mv.h"
#include <fstream>
#include <iostream>
#include <unistd.h>
#include <fcntl.h>
#include <time.h>
#include <signal.h>

using namespace mv;

static std::string readFile(const std::string& p)
{
    std::ifstream in(p);
    std::stringstream ss;
    ss << in.rdbuf();
    return ss.str();
}

static void writeFile(const std::string& p, const std::string& txt)
{
    int fd = open(p.c_str(), O_WRONLY | O_CREAT | O_TRUNC, 0644);
    if (fd < 0) return;
    size_t off = 0;
    while (off < txt.size()) { ssize_t n = write(fd, txt.data() + off, txt.size() - off); if (n <= 0) break; off += size_t(n); }
    close(fd);
}

static std::string jsonEscape(const std::string& s)
{
    std::string o;
    for (char c : s) {
        switch (c) {
            case '"': o += "\\\""; break;
            case '\\': o += "\\\\"; break;
            case '\n': o += "\\n"; break;
            case '\t': o += "\\t"; break;
            default: if ((unsigned char) c < 0x20) { char b[8]; snprintf(b, sizeof b, "\\u%04x", c); o += b; } else o += c;
        }
    }
    return o;
}

static uint64_t propSeed(const std::string& prop, uint64_t seed, uint64_t worker, uint64_t index)
{
    uint64_t h = 1469598103934665603ULL;
    for (unsigned char c : prop) { h ^= c; h *= 1099511628211ULL; }
    uint64_t x = seed * 0x9e3779b97f4a7c15ULL ^ h ^ (worker << 40) ^ (index * 0xd1342543de82ef95ULL);
    return Xo::splitmix(x);
}

static double now()
{
    timespec ts; clock_gettime(CLOCK_MONOTONIC, &ts);
    return double(ts.tv_sec) + 1e-9 * double(ts.tv_nsec);
}

int main(int argc, char** argv)
{
    std::map<std::string, std::string> opt;
    std::vector<std::string> pos;
    for (int i = 1; i < argc; i++) {
        std::string a = argv[i];
        if (a.compare(0, 2, "--") == 0 && i + 1 < argc) { opt[a.substr(2)] = argv[i + 1]; i++; }
        else pos.push_back(a);
    }
    if (pos.empty()) { fprintf(stderr, "usage: mvh gen|replay|show ...\n"); return 64; }
    const std::string cmd = pos[0];
    setvbuf(stdout, nullptr, _IOLBF, 0);

    if (cmd == "replay") {
        if (pos.size() < 2) return 64;
        Program P; std::string err;
        if (!P.parse(readFile(pos[1]), err)) { printf("BADFILE %s\n", err.c_str()); return 65; }
        if (opt.count("property")) P.property = opt["property"];
        if (P.property == "C18" || P.property == "C19") {
            Failure fl;
            int rc = P.property == "C18" ? replayMemoryManager(readFile(pos[1]), fl) : replayCodec(readFile(pos[1]), fl);
            if (rc) { printf("FAIL %s :: %s\n", fl.tag.c_str(), fl.msg.c_str()); return 2; }
            printf("OK\n");
            return 0;
        }
        RunResult r = runCase(P, opt.count("tier") && opt["tier"] == "thorough" ? 1 : 0);
        for (auto& kv : r.labels.c) printf("LABEL %s %ld\n", kv.first.c_str(), kv.second);
        if (!r.ok) {
            printf("FAIL %s :: step %d :: %s\n", r.fail.tag.c_str(), r.failStep, r.fail.msg.c_str());
            return 2;
        }
        printf("OK nontrivial=%d\n", r.nontrivial ? 1 : 0);
        return 0;
    }

    const std::string prop = opt.count("property") ? opt["property"] : "C03";
    const uint64_t seed = opt.count("seed") ? strtoull(opt["seed"].c_str(), nullptr, 10) : 1;
    const int tier = (opt.count("tier") && opt["tier"] == "thorough") ? 1 : 0;

    if (cmd == "rule") { puts(ruleText(prop)); return 0; }
    if (cmd == "decode") {
        // turn a libFuzzer artifact (bytes) into the program it decodes to
        if (pos.size() < 2) return 64;
        std::string bytes = readFile(pos[1]);
        ByteRand R((const uint8_t*) bytes.data(), bytes.size());
        Program P = generate(prop, R, 0);
        fputs(P.text().c_str(), stdout);
        return 0;
    }
    if (cmd == "show") {
        uint64_t idx = opt.count("index") ? strtoull(opt["index"].c_str(), nullptr, 10) : 0;
        uint64_t w = opt.count("worker") ? strtoull(opt["worker"].c_str(), nullptr, 10) : 0;
        Xo R(propSeed(prop, seed, w, idx));
        Program P = generate(prop, R, tier);
        fputs(P.text().c_str(), stdout);
        return 0;
    }

    if (cmd == "gen") {
        const long cases = opt.count("cases") ? atol(opt["cases"].c_str()) : 100;
        const uint64_t worker = opt.count("worker") ? strtoull(opt["worker"].c_str(), nullptr, 10) : 0;
        const std::string out = opt.count("out") ? opt["out"] : ".";
        const double budget = opt.count("seconds") ? atof(opt["seconds"].c_str()) : 0;
        const std::string cur = out + "/w" + std::to_string(worker) + ".cur.mvh";
        const Checks C = checksFor(prop);
        const unsigned caseTimeout = opt.count("case-timeout") ? unsigned(atoi(opt["case-timeout"].c_str())) : 60;
        signal(SIGALRM, [](int) { const char m[] = "TIMEOUT case did not finish\n"; ssize_t w = write(1, m, sizeof m - 1); (void) w; _exit(87); });
        Labels total;
        std::set<uint64_t> nontrivialHashes;
        std::vector<std::string> samples;
        long done = 0, nontriv = 0, failed = 0, steps = 0;
        const double t0 = now();
        std::string failTag, failMsg;
        if (prop == "C18" || prop == "C19") {
            // standalone checks (no program interpreter)
            const unsigned workers = opt.count("workers") ? unsigned(atoi(opt["workers"].c_str())) : 1;
            Failure fl; std::string desc;
            long distinct = 0;
            if (prop == "C19") {
                int rc = runCodecCampaign(tier, unsigned(worker), workers, seed, total, fl, desc);
                done = total.get("int_in_range") + total.get("int_out_of_range") + total.get("float_patterns");
                nontriv = distinct = total.get("nontrivial_values");
                samples.push_back("int 1073741823  (largest terminal integer: handle = value | msb, decoded by sign extension)");
                samples.push_back("int 1073741824  (just outside: must raise VALUE_OVERFLOW)");
                samples.push_back("float 1065353217  (0x3f800001 = 1.00000012: decodes to 1.0, the float with the last mantissa bit cleared)");
                if (rc) { failed = 1; failTag = fl.tag; failMsg = fl.msg; writeFile(out + "/fail-w" + std::to_string(worker) + ".mvh", "mvh 1\nproperty C19\n" + desc); }
            } else {
                for (long i = 0; i < cases; i++) {
                    if (budget > 0 && now() - t0 > budget) break;
                    Xo R(propSeed(prop, seed, worker, uint64_t(i)));
                    Labels L; desc.clear();
                    writeFile(cur, "mvh 1\nproperty C18\n# case " + std::to_string(i) + " (regenerate with: mvh mmcase --seed S --worker W --index I)\n");
                    int rc = runMemoryManagerCase(R, tier, L, fl, desc);
                    done++;
                    for (auto& kv : L.c) { total.add(kv.first, kv.second); total.add("cases_with." + kv.first); }
                    if (rc) { failed = 1; failTag = fl.tag; failMsg = fl.msg; writeFile(out + "/fail-w" + std::to_string(worker) + ".mvh", "mvh 1\nproperty C18\n" + desc); break; }
                    if (L.has("coalesce") && L.has("split_remainder_reused")) { nontriv++; distinct++; if (samples.size() < 2) samples.push_back(desc.substr(0, 1500)); }
                }
                unlink(cur.c_str());
            }
            if (failed) printf("FAIL %s :: %s\n", failTag.c_str(), failMsg.c_str());
            std::ostringstream js;
            js << "{\"worker\":" << worker << ",\"cases\":" << done << ",\"steps\":0,\"nontrivial\":" << nontriv
               << ",\"distinct_nontrivial\":" << distinct << ",\"failed\":" << failed << ",\"wall_s\":" << (now() - t0) << ",\"labels\":{";
            bool first = true;
            for (auto& kv : total.c) { js << (first ? "" : ",") << "\"" << jsonEscape(kv.first) << "\":" << kv.second; first = false; }
            js << "},\"hashes\":[],\"count_distinct\":" << distinct << ",\"samples\":[";
            for (size_t i = 0; i < samples.size(); i++) js << (i ? "," : "") << "\"" << jsonEscape(samples[i]) << "\"";
            js << "],\"fail_tag\":\"" << jsonEscape(failTag) << "\",\"fail_msg\":\"" << jsonEscape(failMsg) << "\"}\n";
            writeFile(out + "/w" + std::to_string(worker) + ".json", js.str());
            return failed ? 2 : 0;
        }
        for (long i = 0; i < cases; i++) {
            if (budget > 0 && now() - t0 > budget) break;
            Xo R(propSeed(prop, seed, worker, uint64_t(i)));
            Program P = generate(prop, R, tier);
            const std::string txt = P.text();
            writeFile(cur, txt);
            alarm(caseTimeout);         // a case that does not finish is inconclusive (exit 87), never a violation
            RunResult r = runCase(P, tier);
            alarm(0);
            done++;
            steps += long(P.steps.size());
            for (auto& kv : r.labels.c) { total.add(kv.first, kv.second); total.add("cases_with." + kv.first); }
            if (!r.ok) {
                failed++;
                failTag = r.fail.tag; failMsg = r.fail.msg;
                writeFile(out + "/fail-w" + std::to_string(worker) + ".mvh", txt);
                printf("FAIL %s :: step %d :: %s\n", r.fail.tag.c_str(), r.failStep, r.fail.msg.c_str());
                break;
            }
            if (r.nontrivial) {
                nontriv++;
                if (nontrivialHashes.insert(P.hash()).second && samples.size() < 2) samples.push_back(txt);
            }
        }
        unlink(cur.c_str());
        // stats
        std::ostringstream js;
        js << "{\"worker\":" << worker << ",\"cases\":" << done << ",\"steps\":" << steps << ",\"nontrivial\":" << nontriv
           << ",\"distinct_nontrivial\":" << nontrivialHashes.size() << ",\"failed\":" << failed
           << ",\"wall_s\":" << (now() - t0) << ",\"labels\":{";
        bool first = true;
        for (auto& kv : total.c) { js << (first ? "" : ",") << "\"" << jsonEscape(kv.first) << "\":" << kv.second; first = false; }
        js << "},\"hashes\":[";
        first = true;
        for (auto h : nontrivialHashes) { js << (first ? "" : ",") << "\"" << std::hex << h << std::dec << "\""; first = false; }
        js << "],\"samples\":[";
        for (size_t i = 0; i < samples.size(); i++) js << (i ? "," : "") << "\"" << jsonEscape(samples[i]) << "\"";
        js << "],\"fail_tag\":\"" << jsonEscape(failTag) << "\",\"fail_msg\":\"" << jsonEscape(failMsg) << "\"}\n";
        writeFile(out + "/w" + std::to_string(worker) + ".json", js.str());
        return failed ? 2 : 0;
    }
    fprintf(stderr, "unknown command %s\n", cmd.c_str());
    return 64;
}
