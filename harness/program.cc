// program.cc -- program text <-> struct
#include "mv.h"

namespace mv {

static std::vector<std::string> splitWords(const std::string& line)
{
    std::vector<std::string> w;
    std::istringstream in(line);
    std::string t;
    while (in >> t) w.push_back(t);
    return w;
}

std::string Program::text() const
{
    std::ostringstream o;
    o << "mvh 1\n";
    o << "property " << property << "\n";
    o << "ct " << ct.style << " " << ct.stale << " " << ct.maxsize << " " << ct.compress << "\n";
    for (auto& d : domains) {
        o << "domain";
        for (int s : d) o << " " << s;
        o << "\n";
    }
    for (auto& f : forests) o << "forest " << f.text() << "\n";
    for (auto& s : steps) {
        for (size_t i = 0; i < s.size(); i++) o << (i ? " " : "") << s[i];
        o << "\n";
    }
    return o.str();
}

static bool kv(const std::string& tok, const char* key, std::string& val)
{
    size_t n = strlen(key);
    if (tok.size() > n && tok.compare(0, n, key) == 0 && tok[n] == '=') { val = tok.substr(n + 1); return true; }
    return false;
}

bool Program::parse(const std::string& txt, std::string& err)
{
    *this = Program();
    std::istringstream in(txt);
    std::string line;
    while (std::getline(in, line)) {
        size_t h = line.find('#');
        if (h != std::string::npos) line = line.substr(0, h);
        auto w = splitWords(line);
        if (w.empty()) continue;
        if (w[0] == "mvh") continue;
        if (w[0] == "property") { if (w.size() > 1) property = w[1]; continue; }
        if (w[0] == "ct") {
            if (w.size() < 5) { err = "bad ct line"; return false; }
            ct.style = atoi(w[1].c_str()); ct.stale = atoi(w[2].c_str());
            ct.maxsize = atol(w[3].c_str()); ct.compress = atoi(w[4].c_str());
            if (ct.style < 0 || ct.style > 3 || ct.stale < 0 || ct.stale > 2 || ct.maxsize < 0) { err = "bad ct values"; return false; }
            continue;
        }
        if (w[0] == "domain") {
            std::vector<int> d;
            for (size_t i = 1; i < w.size(); i++) { int s = atoi(w[i].c_str()); if (s < 1 || s > 64) { err = "bad domain size"; return false; } d.push_back(s); }
            if (d.empty() || d.size() > 8) { err = "bad domain"; return false; }
            domains.push_back(d);
            continue;
        }
        if (w[0] == "forest") {
            FSpec f; std::string v;
            for (size_t i = 1; i < w.size(); i++) {
                if (kv(w[i], "dom", v)) f.dom = atoi(v.c_str());
                else if (kv(w[i], "rel", v)) f.rel = atoi(v.c_str()) != 0;
                else if (kv(w[i], "range", v)) f.range = v[0];
                else if (kv(w[i], "label", v)) f.label = v[0];
                else if (kv(w[i], "red", v)) f.red = v[0];
                else if (kv(w[i], "stor", v)) f.stor = atoi(v.c_str());
                else if (kv(w[i], "mm", v)) f.mm = atoi(v.c_str());
                else if (kv(w[i], "del", v)) f.del = v[0];
                else if (kv(w[i], "reorder", v)) f.reorder = atoi(v.c_str());
                else if (kv(w[i], "swap", v)) f.swap = atoi(v.c_str());
            }
            if (f.dom < 0 || f.dom >= int(domains.size())) { err = "forest: bad domain index"; return false; }
            if (!strchr("BIR", f.range) || !strchr("MPTX", f.label) || !strchr("FQI", f.red) || !strchr("OPN", f.del)
                || f.stor < 1 || f.stor > 3 || f.mm < 0 || f.mm > 3 || f.reorder < 0 || f.reorder > 7 || f.swap < 0 || f.swap > 1) {
                err = "forest: bad field"; return false;
            }
            forests.push_back(f);
            continue;
        }
        steps.push_back(w);
    }
    if (domains.empty() && property != "C18" && property != "C19") { err = "no domain"; return false; }
    return true;
}

uint64_t Program::hash() const
{
    std::string t = text();
    uint64_t h = 1469598103934665603ULL;
    for (unsigned char c : t) { h ^= c; h *= 1099511628211ULL; }
    return h;
}

} // namespace mv
