// fz_mvh.cc -- libFuzzer front-end (thorough tiers)
//
// The input bytes are decoded into a program by the *same* generators that the PRNG campaigns
// use (every random choice reads two bytes; an exhausted input yields zeros), so every decoded
// program satisfies the generators' preconditions and the fuzzer's mutations move through the
// space of generator decisions instead of dying in input validation.  The semantic oracles run
// inside the target; on a failure the program text is saved (that file is the reproducible
// unit) and the process traps.
//
//   MVH_FUZZ_PROP=Cxx   property whose generator / oracles are used (default C04)
//   MVH_FUZZ_OUT=dir    where failing programs are written (default .)
#include "mv.h"
#include <fcntl.h>
#include <unistd.h>

using namespace mv;

static std::string prop()
{
    const char* p = getenv("MVH_FUZZ_PROP");
    return p ? p : "C04";
}

static long g_execs = 0, g_nontrivial = 0;

extern "C" int LLVMFuzzerTestOneInput(const uint8_t* data, size_t size)
{
    static const std::string P0 = prop();
    if (size < 4) return 0;
    ByteRand R(data, size);
    Program P = generate(P0, R, 0);
    if (P.domains.empty()) return 0;
    // library state is created and torn down inside runCase: nothing leaks between iterations
    RunResult r = runCase(P, 0);
    g_execs++;
    if (r.nontrivial) g_nontrivial++;
    if ((g_execs & 15) == 0) {       // (libFuzzer leaves through _Exit: no atexit; a case is a whole program, tens per second)
        const char* out = getenv("MVH_FUZZ_OUT");
        std::string path = std::string(out ? out : ".") + "/fuzz-stats-" + std::to_string(getpid()) + ".txt";
        int fd = open(path.c_str(), O_WRONLY | O_CREAT | O_TRUNC, 0644);
        if (fd >= 0) { std::string s = std::to_string(g_execs) + " " + std::to_string(g_nontrivial) + "\n"; ssize_t w = write(fd, s.data(), s.size()); (void) w; close(fd); }
    }
    if (!r.ok) {
        const char* out = getenv("MVH_FUZZ_OUT");
        char name[128];
        snprintf(name, sizeof name, "/fuzz-fail-%016lx.mvh", (unsigned long) P.hash());
        std::string path = std::string(out ? out : ".") + name;
        std::string txt = P.text();
        int fd = open(path.c_str(), O_WRONLY | O_CREAT | O_TRUNC, 0644);
        if (fd >= 0) { ssize_t w = write(fd, txt.data(), txt.size()); (void) w; close(fd); }
        fprintf(stderr, "MVH-FUZZ-FAIL %s :: %s\nreplay: %s\n", r.fail.tag.c_str(), r.fail.msg.c_str(), path.c_str());
        __builtin_trap();
    }
    return 0;
}
