// mm.cc -- C18 memory-manager model check (direct driving of the five styles)
#include "mv.h"
namespace mv {
int runMemoryManagerCase(Rand&, int, Labels&, Failure&, std::string&) { return 0; }
int replayMemoryManager(const std::string&, Failure&) { return 0; }
}
