// mm.cc -- C18: memory managers driven directly against a reference allocator model
//
// case text (also the replay format):
//     mm <style> <granularity> <minsize>
//     req <slots>
//     rel <k>            release the k-th live chunk (in allocation order); ignored if k is out of range
//     relall
#include "mv.h"
#include <algorithm>
#include <cstring>

using namespace MEDDLY;

namespace mv {

namespace {

struct Chunk { node_address h; size_t slots; uint32_t seed; };

struct MMModel {
    memory_manager* MM = nullptr;
    memstats stats;
    int gran = 4;
    std::vector<Chunk> live;                // allocation order
    // freed address intervals [lo, hi) in bytes, with "remainder of a split hole" flag
    struct Hole { uintptr_t hi; bool remainder; };
    std::map<uintptr_t, Hole> holes;
    Labels* L = nullptr;
    long ops = 0;

    uintptr_t addrOf(const Chunk& c) const { return uintptr_t(MM->getChunkAddress(c.h)); }

    static uint64_t pat(uint32_t seed, size_t i) { return (uint64_t(seed) * 2654435761u + i * 40503u) & 0x7fffffffULL; }

    void fill(const Chunk& c)
    {
        unsigned char* p = (unsigned char*) MM->getChunkAddress(c.h);
        for (size_t i = 0; i < c.slots; i++) {
            if (gran == 4) { uint32_t v = uint32_t(pat(c.seed, i)); memcpy(p + 4 * i, &v, 4); }
            else { uint64_t v = pat(c.seed, i) | (pat(c.seed, i + 7) << 32); v &= 0x7fffffffffffffffULL; memcpy(p + 8 * i, &v, 8); }
        }
    }
    bool intact(const Chunk& c, size_t& bad) const
    {
        const unsigned char* p = (const unsigned char*) MM->getChunkAddress(c.h);
        for (size_t i = 0; i < c.slots; i++) {
            if (gran == 4) { uint32_t v; memcpy(&v, p + 4 * i, 4); if (v != uint32_t(pat(c.seed, i))) { bad = i; return false; } }
            else { uint64_t v, w = (pat(c.seed, i) | (pat(c.seed, i + 7) << 32)) & 0x7fffffffffffffffULL; memcpy(&v, p + 8 * i, 8); if (v != w) { bad = i; return false; } }
        }
        return true;
    }

    bool checkAll(Failure& fl, const char* when)
    {
        char buf[256];
        // contents intact, handles valid, pairwise disjoint (re-derive every address: they may move)
        std::vector<std::pair<uintptr_t, uintptr_t>> rng;
        for (auto& c : live) {
            if (!MM->isValidHandle(c.h)) { snprintf(buf, sizeof buf, "%s: isValidHandle(%lu) is false for a live chunk", when, (unsigned long) c.h); fl = {"C18.invalid-handle", buf}; return false; }
            size_t bad = 0;
            if (!intact(c, bad)) { snprintf(buf, sizeof buf, "%s: slot %zu of live chunk %lu (%zu slots) was altered", when, bad, (unsigned long) c.h, c.slots); fl = {"C18.corrupted", buf}; return false; }
            uintptr_t a = addrOf(c);
            rng.push_back({a, a + c.slots * size_t(gran)});
        }
        std::sort(rng.begin(), rng.end());
        for (size_t i = 1; i < rng.size(); i++) if (rng[i].first < rng[i - 1].second) { snprintf(buf, sizeof buf, "%s: two live chunks overlap", when); fl = {"C18.overlap", buf}; return false; }
        return true;
    }

    void noteAlloc(uintptr_t lo, uintptr_t hi)
    {
        // find the freed interval containing [lo,hi)
        auto it = holes.upper_bound(lo);
        if (it == holes.begin()) return;
        --it;
        if (it->first <= lo && it->second.hi >= hi) {
            uintptr_t hlo = it->first, hhi = it->second.hi; bool rem = it->second.remainder;
            holes.erase(it);
            if (rem) L->add("split_remainder_reused");
            if (hlo < lo || hi < hhi) L->add("split");
            else L->add("exact_fit");
            if (hlo < lo) holes[hlo] = {lo, true};
            if (hi < hhi) holes[hi] = {hhi, true};
        } else {
            // partial overlaps with our idea of the holes (the manager may have compacted): forget them
            while (it != holes.end() && it->first < hi) { if (it->second.hi > lo) it = holes.erase(it); else ++it; }
        }
    }
    void noteFree(uintptr_t lo, uintptr_t hi)
    {
        bool rem = false;
        auto nx = holes.find(hi);
        if (nx != holes.end()) { hi = nx->second.hi; rem = rem || nx->second.remainder; holes.erase(nx); L->add("coalesce"); }
        auto it = holes.lower_bound(lo);
        if (it != holes.begin()) { --it; if (it->second.hi == lo) { lo = it->first; rem = rem || it->second.remainder; holes.erase(it); L->add("coalesce"); } }
        holes[lo] = {hi, rem};
    }

    bool request(size_t n, Failure& fl)
    {
        char buf[256];
        size_t m = n;
        node_address h = 0;
        try { h = MM->requestChunk(m); }
        catch (MEDDLY::error& e) { snprintf(buf, sizeof buf, "requestChunk(%zu) threw %s", n, e.getName()); fl = {"exception", buf}; return false; }
        ops++;
        if (h == 0 || m == 0) { snprintf(buf, sizeof buf, "requestChunk(%zu) failed", n); fl = {"C18.request-failed", buf}; return false; }
        if (m < n) { snprintf(buf, sizeof buf, "requestChunk(%zu) granted only %zu slots", n, m); fl = {"C18.short-chunk", buf}; return false; }
        for (auto& c : live) if (c.h == h) { snprintf(buf, sizeof buf, "requestChunk(%zu) returned handle %lu, which is still live", n, (unsigned long) h); fl = {"C18.handle-reused-while-live", buf}; return false; }
        Chunk c{h, m, uint32_t(ops * 2246822519u + uint32_t(h))};
        // the new chunk must not overlap any live chunk, and live contents must be intact
        live.push_back(c);
        {
            Chunk saved = live.back(); live.pop_back();
            if (!checkAll(fl, "after requestChunk")) return false;
            live.push_back(saved);
        }
        uintptr_t a = addrOf(c);
        for (size_t i = 0; i + 1 < live.size(); i++) {
            uintptr_t b = addrOf(live[i]);
            if (a < b + live[i].slots * size_t(gran) && b < a + m * size_t(gran)) { snprintf(buf, sizeof buf, "requestChunk(%zu) returned memory overlapping live chunk %lu", n, (unsigned long) live[i].h); fl = {"C18.overlap", buf}; return false; }
        }
        fill(live.back());
        noteAlloc(a, a + m * size_t(gran));
        if (m > n) L->add("granted_more_than_requested");
        if (n > 16) L->add("request_over_16_slots");
        return true;
    }

    bool release(size_t k, Failure& fl)
    {
        if (k >= live.size()) return true;
        Chunk c = live[k];
        size_t bad = 0;
        char buf[200];
        if (!intact(c, bad)) { snprintf(buf, sizeof buf, "slot %zu of chunk %lu was altered before its release", bad, (unsigned long) c.h); fl = {"C18.corrupted", buf}; return false; }
        uintptr_t a = addrOf(c);
        live.erase(live.begin() + long(k));
        try { MM->recycleChunk(c.h, c.slots); }
        catch (MEDDLY::error& e) { snprintf(buf, sizeof buf, "recycleChunk threw %s", e.getName()); fl = {"exception", buf}; return false; }
        ops++;
        noteFree(a, a + c.slots * size_t(gran));
        return checkAll(fl, "after recycleChunk");
    }
};

const memory_manager_style* styleByName(const std::string& s)
{
    if (s == "ORIGINAL_GRID") return ORIGINAL_GRID;
    if (s == "ARRAY_PLUS_GRID") return ARRAY_PLUS_GRID;
    if (s == "MALLOC_MANAGER") return MALLOC_MANAGER;
    if (s == "HEAP_MANAGER") return HEAP_MANAGER;
    if (s == "FREELISTS") return FREELISTS;
    return nullptr;
}

// executes a case text; 0 ok, 2 failure
int execute(const std::string& text, Labels& L, Failure& fl)
{
    std::istringstream in(text);
    std::string line;
    MMModel M; M.L = &L;
    bool inited = false;
    int rc = 0;
    size_t minsize = 2, maxreq = 1000;
    while (std::getline(in, line)) {
        std::istringstream ls(line);
        std::string op; ls >> op;
        if (op == "mm") {
            std::string style; int g = 4, ms = 2; ls >> style >> g >> ms;
            if (inited) continue;
            if ((g != 4 && g != 8) || ms < 1 || ms > 8) { continue; }
            if (style == "FREELISTS") { maxreq = 15; if (ms < 2) ms = 2; } else { if (g != 4) g = 4; if (ms < 3) ms = 3; }
            MEDDLY::initialize();
            inited = true;
            const memory_manager_style* st = styleByName(style);
            if (!st) break;
            M.gran = g; minsize = size_t(ms);
            M.MM = st->initManager((unsigned char) g, (unsigned char) ms, M.stats);
            if (!M.MM) { fl = {"C18.no-manager", "initManager returned null for " + style}; rc = 2; break; }
            L.add("style." + style + ".g" + std::to_string(g));
        } else if (!M.MM) {
            continue;
        } else if (op == "req") {
            size_t n = 0; ls >> n;
            if (n < minsize || n > maxreq) continue;
            if (!M.request(n, fl)) { rc = 2; break; }
        } else if (op == "rel") {
            size_t k = 0; ls >> k;
            if (!M.release(k, fl)) { rc = 2; break; }
        } else if (op == "relall") {
            while (!M.live.empty()) if (!M.release(M.live.size() - 1 - (M.live.size() % 2 ? 0 : M.live.size() / 2), fl)) { rc = 2; break; }
            if (rc) break;
            L.add("total_release");
        }
    }
    if (rc == 0 && M.MM) {
        // final sweep, then release everything
        if (!M.checkAll(fl, "at the end")) rc = 2;
        while (rc == 0 && !M.live.empty()) if (!M.release(M.live.size() - 1, fl)) rc = 2;
    }
    L.add("mm_ops", M.ops);
    if (M.MM && rc == 0) delete M.MM;
    if (inited && rc == 0) MEDDLY::cleanup();
    return rc;
}

} // namespace

int runMemoryManagerCase(Rand& R, int tier, Labels& L, Failure& fl, std::string& desc)
{
    static const char* STYLES[5] = {"ORIGINAL_GRID", "ARRAY_PLUS_GRID", "HEAP_MANAGER", "MALLOC_MANAGER", "FREELISTS"};
    const std::string style = STYLES[R.below(5)];
    const bool fls = style == "FREELISTS";
    const int gran = fls ? (R.chance(50) ? 4 : 8) : 4;
    const int minsize = fls ? 2 : R.range(3, 5);
    const size_t maxreq = fls ? 15 : (R.chance(30) ? 600 : 40);
    std::ostringstream o;
    o << "mm " << style << " " << gran << " " << minsize << "\n";
    long nops = R.range(50, tier ? 6000 : 700);
    long liveCount = 0;
    // a few popular sizes (exact fits), otherwise skewed small
    std::vector<size_t> popular;
    for (int i = 0; i < 3; i++) popular.push_back(size_t(R.range(minsize, int(std::min<size_t>(maxreq, 24)))));
    int phase = 0;      // 0 grow, 1 mixed, 2 shrink
    for (long i = 0; i < nops; i++) {
        if (R.chance(2)) phase = int(R.below(3));
        int preq = phase == 0 ? 80 : phase == 1 ? 50 : 20;
        if (liveCount == 0 || R.chance(preq)) {
            size_t n;
            int r = int(R.below(100));
            if (r < 35) n = popular[R.below(3)];
            else if (r < 85) n = size_t(R.range(minsize, int(std::min<size_t>(maxreq, 20))));
            else n = size_t(R.range(minsize, int(maxreq)));
            o << "req " << n << "\n";
            liveCount++;
        } else {
            long k;
            int r = int(R.below(100));
            if (r < 30) k = liveCount - 1;                  // most recent
            else if (r < 45) k = 0;                          // oldest
            else k = long(R.below(uint32_t(liveCount)));
            // often free a neighbour of the previous free (adjacent holes)
            o << "rel " << k << "\n";
            if (R.chance(35) && liveCount > 1 && k < liveCount - 1) { o << "rel " << k << "\n"; liveCount--; }
            liveCount--;
        }
        if (R.chance(1)) { o << "relall\n"; liveCount = 0; }
    }
    desc = o.str();
    return execute(desc, L, fl);
}

int replayMemoryManager(const std::string& text, Failure& fl)
{
    Labels L;
    return execute(text, L, fl);
}

} // namespace mv
