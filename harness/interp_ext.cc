// interp_ext.cc -- further step families: round trips, index sets, iteration, reordering,
// exchange files, reachability, lifecycle, misuse
#include "interp.h"
#include <algorithm>
#include <cmath>

using namespace MEDDLY;

namespace mv {

static int toInt(const std::string& s) { return atoi(s.c_str()); }

static bool doRoundTrip(Interp& I, const Step& s)
{
    // roundtrip a t u fa : copy slot t (a copy of a in another forest) back into a's forest
    World& W = I.W;
    if (s.size() < 5) { I.skip("rt-short"); return true; }
    const int a = toInt(s[1]), t = toInt(s[2]), u = toInt(s[3]), fa = toInt(s[4]);
    if (!I.liveSlot(a) || !I.liveSlot(t) || u < 0 || u > 63 || !I.okForest(fa) || W.slots[size_t(a)].f != fa) { I.skip("rt-operands"); return true; }
    const int ft = W.slots[size_t(t)].f;
    if (!I.sameShape(fa, ft)) { I.skip("rt-shape"); return true; }
    if (W.fs[ft].rel && W.fs[ft].red == 'I' && W.fs[ft].label != 'P' && W.fs[fa].label == 'P' && !I.strictErrors) {
        I.R.labels.add("excluded.copy_identity_zero_to_evplus");
        return true;
    }
    ModelRes M = modelUnary(W, "COPY", ft, W.slots[size_t(t)].T, fa);
    if (!M.defined) { I.skip(M.skipwhy); return true; }
    unary_operation* uop = nullptr;
    try { uop = COPY().build(W.F[ft], W.F[fa]); }
    catch (MEDDLY::error& er) { I.R.labels.add("unsupported.COPY"); return true; }
    if (!uop) { I.R.labels.add("unsupported.COPY"); return true; }
    dd_edge* e = new dd_edge(W.F[fa]);
    try { uop->compute(*W.slots[size_t(t)].e, *e); }
    catch (MEDDLY::error& er) { delete e; return I.fail("exception", std::string("COPY (back) threw ") + er.getName()); }
    // lossless?
    const Table& TA = W.slots[size_t(a)].T;
    bool lossless = true;
    for (size_t i = 0; i < TA.size(); i++) if (TA[i].isUn() || M.T[i].isUn() || !exactVal(TA[i], M.T[i])) { lossless = false; break; }
    I.R.labels.add("op.COPY");
    if (!I.produce(u, fa, e, M.T, "COPY(back)")) return false;
    if (lossless) {
        I.R.labels.add("roundtrip_lossless");
        if (!(*W.slots[size_t(u)].e == *W.slots[size_t(a)].e))
            return I.fail("C10.roundtrip", "copy there and back denotes the same function but is not the identical edge");
    } else I.R.labels.add("roundtrip_lossy");
    return true;
}

bool Interp::doExtra(const Step& s, bool& handled)
{
    handled = true;
    const std::string& op = s[0];
    if (op == "roundtrip") return doRoundTrip(*this, s);
    handled = false;
    return true;
}

} // namespace mv
