// interp_ext.cc -- further step families: round trips, index sets, iteration, reordering,
// exchange files, reachability, lifecycle, misuse
#include "interp.h"
#include <algorithm>
#include <cmath>

using namespace MEDDLY;

namespace mv {

static int toInt(const std::string& s) { return atoi(s.c_str()); }

static bool doRoundTrip(Interp& I, const Step& s)
{
    // roundtrip a t u fa : copy slot t (a copy of a in another forest) back into a's forest
    World& W = I.W;
    if (s.size() < 5) { I.skip("rt-short"); return true; }
    const int a = toInt(s[1]), t = toInt(s[2]), u = toInt(s[3]), fa = toInt(s[4]);
    if (!I.liveSlot(a) || !I.liveSlot(t) || u < 0 || u > 63 || !I.okForest(fa) || W.slots[size_t(a)].f != fa) { I.skip("rt-operands"); return true; }
    const int ft = W.slots[size_t(t)].f;
    if (!I.sameShape(fa, ft)) { I.skip("rt-shape"); return true; }
    if (W.fs[ft].rel && W.fs[ft].red == 'I' && W.fs[ft].label != 'P' && W.fs[fa].label == 'P' && !I.strictErrors) {
        I.R.labels.add("excluded.copy_identity_zero_to_evplus");
        return true;
    }
    ModelRes M = modelUnary(W, "COPY", ft, W.slots[size_t(t)].T, fa);
    if (!M.defined) { I.skip(M.skipwhy); return true; }
    unary_operation* uop = nullptr;
    try { uop = COPY().build(W.F[ft], W.F[fa]); }
    catch (MEDDLY::error& er) { I.R.labels.add("unsupported.COPY"); return true; }
    if (!uop) { I.R.labels.add("unsupported.COPY"); return true; }
    dd_edge* e = new dd_edge(W.F[fa]);
    try { uop->compute(*W.slots[size_t(t)].e, *e); }
    catch (MEDDLY::error& er) { delete e; return I.fail("exception", std::string("COPY (back) threw ") + er.getName()); }
    // lossless?
    const Table& TA = W.slots[size_t(a)].T;
    bool lossless = true;
    for (size_t i = 0; i < TA.size(); i++) if (TA[i].isUn() || M.T[i].isUn() || !exactVal(TA[i], M.T[i])) { lossless = false; break; }
    I.R.labels.add("op.COPY");
    if (!I.produce(u, fa, e, M.T, "COPY(back)")) return false;
    if (lossless) {
        I.R.labels.add("roundtrip_lossless");
        if (!(*W.slots[size_t(u)].e == *W.slots[size_t(a)].e))
            return I.fail("C10.roundtrip", "copy there and back denotes the same function but is not the identical edge");
    } else I.R.labels.add("roundtrip_lossy");
    return true;
}

// ---------------------------------------------------------------------------------------
// C11: iteration and counting
// ---------------------------------------------------------------------------------------
static bool doIter(Interp& I, const Step& s)
{
    // iter src [mask tokens]
    World& W = I.W;
    if (s.size() < 2) { I.skip("iter-short"); return true; }
    const int src = toInt(s[1]);
    if (!I.liveSlot(src)) { I.skip("iter-operand"); return true; }
    const Slot& S = W.slots[size_t(src)];
    const int f = S.f;
    const FSpec& FS = W.fs[f];
    const Dom& D = W.domOf(f);
    const int K = D.K();
    forest* F = W.F[f];
    for (auto& v : S.T) if (v.isUn()) { I.skip("iter-unspec"); return true; }
    // mask
    std::vector<int> mf(K + 1, -1), mt(K + 1, -1);
    bool haveMask = s.size() > 2;
    if (haveMask) {
        if (int(s.size()) != 2 + (FS.rel ? 2 * K : K)) { I.skip("iter-mask-shape"); return true; }
        for (int v = 1; v <= K; v++) {
            int a = toInt(s[size_t(1 + v)]);
            if (a < -1 || a >= D.sizes[v]) { I.skip("iter-mask-range"); return true; }
            mf[v] = a;
            if (FS.rel) {
                int b = toInt(s[size_t(1 + K + v)]);
                if (b < -2 || b >= D.sizes[v]) { I.skip("iter-mask-range"); return true; }
                if (b == -2 && a >= 0) b = a;
                mt[v] = b;
            }
        }
    }
    // expected: non-default points matching the mask, in lexicographic order by level
    const Val tv = W.transparent(f);
    struct Pt { std::vector<int> key; long idx; };
    std::vector<Pt> want;
    std::vector<int> from, to;
    for (long idx = 0; idx < long(S.T.size()); idx++) {
        const Val& v = S.T[size_t(idx)];
        if (exactVal(v, tv) || (v.t == VR && v.d == 0.0)) continue;
        W.decode(f, idx, from, to);
        bool ok = true;
        for (int x = 1; x <= K && ok; x++) {
            if (mf[x] >= 0 && mf[x] != from[x]) ok = false;
            if (FS.rel) {
                if (mt[x] >= 0 && mt[x] != to[x]) ok = false;
                if (mt[x] == -2 && to[x] != from[x]) ok = false;
            }
        }
        if (!ok) continue;
        Pt p; p.idx = idx;
        for (int lvl = K; lvl >= 1; lvl--) {
            int var = F->getVarByLevel(lvl);
            p.key.push_back(from[var]);
            if (FS.rel) p.key.push_back(to[var]);
        }
        want.push_back(p);
    }
    std::sort(want.begin(), want.end(), [](const Pt& a, const Pt& b) { return a.key < b.key; });
    // library
    minterm mask(F);
    if (haveMask) {
        for (int v = 1; v <= K; v++) {
            int lvl = F->getLevelByVar(v);
            if (FS.rel) mask.setVars(unsigned(lvl), mf[v], mt[v]);
            else mask.setVar(unsigned(lvl), mf[v]);
        }
    }
    size_t n = 0;
    try {
        dd_edge::iterator it = S.e->begin(haveMask ? &mask : nullptr);
        for (; it; ++it) {
            const minterm& m = *it;
            if (n >= want.size()) return I.fail("C11.iter-extra", "iterator visits more assignments than the function has non-default points under the mask");
            std::vector<int> key;
            for (int lvl = K; lvl >= 1; lvl--) {
                key.push_back(m.from(unsigned(lvl)));
                if (FS.rel) key.push_back(m.to(unsigned(lvl)));
            }
            if (key != want[n].key) {
                std::ostringstream o;
                o << "visit #" << n << " is (";
                for (int k : key) o << k << " ";
                o << ") but the next non-default assignment in lexicographic order is (";
                for (int k : want[n].key) o << k << " ";
                o << ")";
                return I.fail("C11.iter-order", o.str());
            }
            Val got = fromRangeval(m.getValue());
            if (!sameVal(got, S.T[size_t(want[n].idx)]))
                return I.fail("C11.iter-value", "iterator reports value " + showVal(got) + ", function value is " + showVal(S.T[size_t(want[n].idx)]));
            n++;
        }
        if (n != want.size()) return I.fail("C11.iter-missing", "iterator stopped after " + std::to_string(n) + " of " + std::to_string(want.size()) + " assignments");
        // exhausted iterator
        if (bool(it)) return I.fail("C11.iter-end", "exhausted iterator converts to true");
        bool threw = false;
        try { const minterm& m = *it; (void) m; }
        catch (MEDDLY::error& er) { threw = (er.getCode() == error::INVALID_ITERATOR); }
        if (!threw) return I.fail("C11.iter-end", "dereferencing an exhausted iterator did not raise INVALID_ITERATOR");
    } catch (MEDDLY::error& er) {
        return I.fail("exception", std::string("iteration threw ") + er.getName());
    }
    I.R.labels.add("op.iter");
    if (haveMask) I.R.labels.add("iter_mask");
    if (haveMask && want.empty()) I.R.labels.add("iter_mask_matches_nothing");
    if (want.size() >= 2 && want.size() < S.T.size()) I.R.labels.add("iter_proper_subset");
    I.R.labels.add("iter_visits", long(n));
    return true;
}

static bool doCounts(Interp& I, const Step& s)
{
    World& W = I.W;
    if (s.size() < 2) { I.skip("counts-short"); return true; }
    const int src = toInt(s[1]);
    if (!I.liveSlot(src)) { I.skip("counts-operand"); return true; }
    const Slot& S = W.slots[size_t(src)];
    unsigned long nodes = 0, edges = 0;
    countBelow(W, S.f, *S.e, nodes, edges);
    unsigned long gn = S.e->getNodeCount();
    unsigned long ge = S.e->getEdgeCount(false);
    unsigned long gz = S.e->getEdgeCount(true);
    if (gn != nodes) return I.fail("C11.node-count", "getNodeCount() = " + std::to_string(gn) + ", distinct nodes reachable = " + std::to_string(nodes));
    if (ge != edges) return I.fail("C11.edge-count", "getEdgeCount(false) = " + std::to_string(ge) + ", non-transparent edges reachable = " + std::to_string(edges));
    if (gz < ge) return I.fail("C11.edge-count", "getEdgeCount(true) < getEdgeCount(false)");
    I.R.labels.add("op.counts");
    if (nodes >= 5) I.R.labels.add("counts_5nodes");
    return true;
}

// ---------------------------------------------------------------------------------------
// C06: drain point -- release everything, clear caches, every node must be reclaimed
// ---------------------------------------------------------------------------------------
static bool doDrain(Interp& I, const Step& s)
{
    World& W = I.W;
    (void) s;
    for (size_t i = 0; i < W.slots.size(); i++) if (W.slots[i].live()) W.release(int(i));
    for (size_t f = 0; f < W.F.size(); f++) if (W.F[f]) W.F[f]->removeAllComputeTableEntries();
    for (size_t f = 0; f < W.F.size(); f++) {
        forest* F = W.F[f];
        if (!F) continue;
        if (W.fs[f].del == 'N') continue;       // never-delete: no reclamation claim
        long act = activeNodes(F), reach = reachableFromRoots(F);
        if (act != reach) {
            std::ostringstream o;
            o << "forest " << f << " (" << (W.fs[f].del == 'P' ? "pessimistic" : "optimistic") << "): " << act
              << " live nodes after releasing every user edge and clearing the caches, but only " << reach
              << " are reachable from the remaining registered edges";
            return I.fail("C06.leak", o.str());
        }
        if (F->getCurrentNumNodes() != act) return I.fail("C06.node-count", "getCurrentNumNodes() differs from the number of live nodes after the drain");
    }
    I.R.labels.add("drain_point");
    return true;
}

bool Interp::doExtra(const Step& s, bool& handled)
{
    handled = true;
    const std::string& op = s[0];
    if (op == "roundtrip") return doRoundTrip(*this, s);
    if (op == "iter") return doIter(*this, s);
    if (op == "counts") return doCounts(*this, s);
    if (op == "drain") return doDrain(*this, s);
    {
        bool h = false;
        bool ok = doReachFamily(*this, s, h);
        if (h) return ok;
    }
    handled = false;
    return true;
}

} // namespace mv
