// interp_ext.cc -- further step families: round trips, index sets, iteration, reordering,
// exchange files, reachability, lifecycle, misuse
#include "interp.h"
#include <algorithm>
#include <cmath>

using namespace MEDDLY;

namespace mv {

static int toInt(const std::string& s) { return atoi(s.c_str()); }

static bool doRoundTrip(Interp& I, const Step& s)
{
    // roundtrip a t u fa : copy slot t (a copy of a in another forest) back into a's forest
    World& W = I.W;
    if (s.size() < 5) { I.skip("rt-short"); return true; }
    const int a = toInt(s[1]), t = toInt(s[2]), u = toInt(s[3]), fa = toInt(s[4]);
    if (!I.liveSlot(a) || !I.liveSlot(t) || u < 0 || u > 63 || !I.okForest(fa) || W.slots[size_t(a)].f != fa) { I.skip("rt-operands"); return true; }
    const int ft = W.slots[size_t(t)].f;
    if (!I.sameShape(fa, ft)) { I.skip("rt-shape"); return true; }
    if (W.fs[ft].rel && W.fs[ft].red == 'I' && W.fs[ft].label != 'P' && W.fs[fa].label == 'P' && !I.strictErrors) {
        I.R.labels.add("excluded.copy_identity_zero_to_evplus");
        return true;
    }
    ModelRes M = modelUnary(W, "COPY", ft, W.slots[size_t(t)].T, fa);
    if (!M.defined) { I.skip(M.skipwhy); return true; }
    unary_operation* uop = nullptr;
    try { uop = COPY().build(W.F[ft], W.F[fa]); }
    catch (MEDDLY::error& er) { I.R.labels.add("unsupported.COPY"); return true; }
    if (!uop) { I.R.labels.add("unsupported.COPY"); return true; }
    dd_edge* e = new dd_edge(W.F[fa]);
    try { uop->compute(*W.slots[size_t(t)].e, *e); }
    catch (MEDDLY::error& er) { delete e; return I.fail("exception", std::string("COPY (back) threw ") + er.getName()); }
    // lossless?
    const Table& TA = W.slots[size_t(a)].T;
    bool lossless = true;
    for (size_t i = 0; i < TA.size(); i++) if (TA[i].isUn() || M.T[i].isUn() || !exactVal(TA[i], M.T[i])) { lossless = false; break; }
    I.R.labels.add("op.COPY");
    if (!I.produce(u, fa, e, M.T, "COPY(back)")) return false;
    if (lossless) {
        I.R.labels.add("roundtrip_lossless");
        if (!(*W.slots[size_t(u)].e == *W.slots[size_t(a)].e))
            return I.fail("C10.roundtrip", "copy there and back denotes the same function but is not the identical edge");
    } else I.R.labels.add("roundtrip_lossy");
    return true;
}

// ---------------------------------------------------------------------------------------
// C11: iteration and counting
// ---------------------------------------------------------------------------------------
static bool doIter(Interp& I, const Step& s)
{
    // iter src [mask tokens]
    World& W = I.W;
    if (s.size() < 2) { I.skip("iter-short"); return true; }
    const int src = toInt(s[1]);
    if (!I.liveSlot(src)) { I.skip("iter-operand"); return true; }
    const Slot& S = W.slots[size_t(src)];
    const int f = S.f;
    const FSpec& FS = W.fs[f];
    const Dom& D = W.domOf(f);
    const int K = D.K();
    forest* F = W.F[f];
    for (auto& v : S.T) if (v.isUn()) { I.skip("iter-unspec"); return true; }
    // mask
    std::vector<int> mf(K + 1, -1), mt(K + 1, -1);
    bool haveMask = s.size() > 2;
    if (haveMask) {
        if (int(s.size()) != 2 + (FS.rel ? 2 * K : K)) { I.skip("iter-mask-shape"); return true; }
        for (int v = 1; v <= K; v++) {
            int a = toInt(s[size_t(1 + v)]);
            if (a < -1 || a >= D.sizes[v]) { I.skip("iter-mask-range"); return true; }
            mf[v] = a;
            if (FS.rel) {
                int b = toInt(s[size_t(1 + K + v)]);
                if (b < -2 || b >= D.sizes[v]) { I.skip("iter-mask-range"); return true; }
                if (b == -2 && a >= 0) b = a;
                mt[v] = b;
            }
        }
    }
    // expected: non-default points matching the mask, in lexicographic order by level
    const Val tv = W.transparent(f);
    struct Pt { std::vector<int> key; long idx; };
    std::vector<Pt> want;
    std::vector<int> from, to;
    for (long idx = 0; idx < long(S.T.size()); idx++) {
        const Val& v = S.T[size_t(idx)];
        if (exactVal(v, tv) || (v.t == VR && v.d == 0.0)) continue;
        W.decode(f, idx, from, to);
        bool ok = true;
        for (int x = 1; x <= K && ok; x++) {
            if (mf[x] >= 0 && mf[x] != from[x]) ok = false;
            if (FS.rel) {
                if (mt[x] >= 0 && mt[x] != to[x]) ok = false;
                if (mt[x] == -2 && to[x] != from[x]) ok = false;
            }
        }
        if (!ok) continue;
        Pt p; p.idx = idx;
        for (int lvl = K; lvl >= 1; lvl--) {
            int var = F->getVarByLevel(lvl);
            p.key.push_back(from[var]);
            if (FS.rel) p.key.push_back(to[var]);
        }
        want.push_back(p);
    }
    std::sort(want.begin(), want.end(), [](const Pt& a, const Pt& b) { return a.key < b.key; });
    // library
    minterm mask(F);
    if (haveMask) {
        for (int v = 1; v <= K; v++) {
            int lvl = F->getLevelByVar(v);
            if (FS.rel) mask.setVars(unsigned(lvl), mf[v], mt[v]);
            else mask.setVar(unsigned(lvl), mf[v]);
        }
    }
    size_t n = 0;
    try {
        dd_edge::iterator it = S.e->begin(haveMask ? &mask : nullptr);
        for (; it; ++it) {
            const minterm& m = *it;
            if (n >= want.size()) return I.fail("C11.iter-extra", "iterator visits more assignments than the function has non-default points under the mask");
            std::vector<int> key;
            for (int lvl = K; lvl >= 1; lvl--) {
                key.push_back(m.from(unsigned(lvl)));
                if (FS.rel) key.push_back(m.to(unsigned(lvl)));
            }
            if (key != want[n].key) {
                std::ostringstream o;
                o << "visit #" << n << " is (";
                for (int k : key) o << k << " ";
                o << ") but the next non-default assignment in lexicographic order is (";
                for (int k : want[n].key) o << k << " ";
                o << ")";
                return I.fail("C11.iter-order", o.str());
            }
            Val got = fromRangeval(m.getValue());
            if (!sameVal(got, S.T[size_t(want[n].idx)]))
                return I.fail("C11.iter-value", "iterator reports value " + showVal(got) + ", function value is " + showVal(S.T[size_t(want[n].idx)]));
            n++;
        }
        if (n != want.size()) return I.fail("C11.iter-missing", "iterator stopped after " + std::to_string(n) + " of " + std::to_string(want.size()) + " assignments");
        // exhausted iterator
        if (bool(it)) return I.fail("C11.iter-end", "exhausted iterator converts to true");
        bool threw = false;
        try { const minterm& m = *it; (void) m; }
        catch (MEDDLY::error& er) { threw = (er.getCode() == error::INVALID_ITERATOR); }
        if (!threw) return I.fail("C11.iter-end", "dereferencing an exhausted iterator did not raise INVALID_ITERATOR");
    } catch (MEDDLY::error& er) {
        return I.fail("exception", std::string("iteration threw ") + er.getName());
    }
    I.R.labels.add("op.iter");
    if (haveMask) I.R.labels.add("iter_mask");
    if (haveMask && want.empty()) I.R.labels.add("iter_mask_matches_nothing");
    if (want.size() >= 2 && want.size() < S.T.size()) I.R.labels.add("iter_proper_subset");
    I.R.labels.add("iter_visits", long(n));
    return true;
}

static bool doCounts(Interp& I, const Step& s)
{
    World& W = I.W;
    if (s.size() < 2) { I.skip("counts-short"); return true; }
    const int src = toInt(s[1]);
    if (!I.liveSlot(src)) { I.skip("counts-operand"); return true; }
    const Slot& S = W.slots[size_t(src)];
    unsigned long nodes = 0, edges = 0;
    countBelow(W, S.f, *S.e, nodes, edges);
    unsigned long gn = S.e->getNodeCount();
    unsigned long ge = S.e->getEdgeCount(false);
    unsigned long gz = S.e->getEdgeCount(true);
    if (gn != nodes) return I.fail("C11.node-count", "getNodeCount() = " + std::to_string(gn) + ", distinct nodes reachable = " + std::to_string(nodes));
    if (ge != edges) return I.fail("C11.edge-count", "getEdgeCount(false) = " + std::to_string(ge) + ", non-transparent edges reachable = " + std::to_string(edges));
    if (gz < ge) return I.fail("C11.edge-count", "getEdgeCount(true) < getEdgeCount(false)");
    I.R.labels.add("op.counts");
    if (nodes >= 5) I.R.labels.add("counts_5nodes");
    return true;
}

// ---------------------------------------------------------------------------------------
// C06: drain point -- release everything, clear caches, every node must be reclaimed
// ---------------------------------------------------------------------------------------
static bool doDrain(Interp& I, const Step& s)
{
    World& W = I.W;
    (void) s;
    for (size_t i = 0; i < W.slots.size(); i++) if (W.slots[i].live()) W.release(int(i));
    for (size_t f = 0; f < W.F.size(); f++) if (W.F[f]) W.F[f]->removeAllComputeTableEntries();
    for (size_t f = 0; f < W.F.size(); f++) {
        forest* F = W.F[f];
        if (!F) continue;
        if (W.fs[f].del == 'N') continue;       // never-delete: no reclamation claim
        long act = activeNodes(F), reach = reachableFromRoots(F);
        if (act != reach) {
            std::ostringstream o;
            o << "forest " << f << " (" << (W.fs[f].del == 'P' ? "pessimistic" : "optimistic") << "): " << act
              << " live nodes after releasing every user edge and clearing the caches, but only " << reach
              << " are reachable from the remaining registered edges";
            return I.fail("C06.leak", o.str());
        }
        if (F->getCurrentNumNodes() != act) return I.fail("C06.node-count", "getCurrentNumNodes() differs from the number of live nodes after the drain");
    }
    I.R.labels.add("drain_point");
    return true;
}

// ---------------------------------------------------------------------------------------
// C15: index sets
// ---------------------------------------------------------------------------------------
// lexicographic sort key of a set assignment by level (level K most significant)
static std::vector<int> levelKey(World& W, int f, const std::vector<int>& from)
{
    forest* F = W.F[f];
    const int K = W.domOf(f).K();
    std::vector<int> key;
    for (int lvl = K; lvl >= 1; lvl--) key.push_back(from[size_t(F->getVarByLevel(lvl))]);
    return key;
}

static bool doIndexSet(Interp& I, const Step& s)
{
    // un INDEXSET src dst f
    World& W = I.W;
    if (s.size() < 5) { I.skip("ix-short"); return true; }
    const int src = toInt(s[2]), dst = toInt(s[3]), fc = toInt(s[4]);
    if (!I.liveSlot(src) || dst < 0 || dst > 63 || !I.okForest(fc)) { I.skip("ix-operands"); return true; }
    const int fa = W.slots[size_t(src)].f;
    const FSpec &SA = W.fs[fa], &SC = W.fs[fc];
    if (SA.rel || SA.range != 'B' || SA.label != 'M' || SC.label != 'X' || SC.rel || SA.dom != SC.dom) { I.skip("ix-kinds"); return true; }
    const Table& TA = W.slots[size_t(src)].T;
    for (auto& v : TA) if (v.isUn()) { I.skip("ix-unspec"); return true; }
    // model: members in lexicographic order get 0..n-1
    struct M { std::vector<int> key; long idx; };
    std::vector<M> mem;
    std::vector<int> from, to;
    for (long idx = 0; idx < long(TA.size()); idx++) {
        if (!TA[size_t(idx)].i) continue;
        W.decode(fa, idx, from, to);
        mem.push_back({levelKey(W, fa, from), idx});
    }
    std::sort(mem.begin(), mem.end(), [](const M& a, const M& b) { return a.key < b.key; });
    Table T(TA.size(), Val::Inf());
    for (size_t i = 0; i < mem.size(); i++) T[size_t(mem[i].idx)] = Val::I(long(i));
    {
        std::vector<int> oa(size_t(W.domOf(fa).K()) + 1), oc(oa.size());
        W.F[fa]->getVariableOrder(oa.data()); W.F[fc]->getVariableOrder(oc.data());
        if (oa != oc) { I.skip("ix-order"); return true; }
    }
    unary_operation* uop = nullptr;
    try { uop = CONVERT_TO_INDEX_SET().build(W.F[fa], W.F[fc]); }
    catch (MEDDLY::error& er) { I.R.labels.add("unsupported.INDEXSET"); return true; }
    if (!uop) { I.R.labels.add("unsupported.INDEXSET"); return true; }
    dd_edge* e = new dd_edge(W.F[fc]);
    try { uop->compute(*W.slots[size_t(src)].e, *e); }
    catch (MEDDLY::error& er) { delete e; return I.fail("exception", std::string("CONVERT_TO_INDEX_SET threw ") + er.getName()); }
    I.R.labels.add("op.INDEXSET");
    if (mem.empty()) I.R.labels.add("indexset_empty");
    if (mem.size() == TA.size()) I.R.labels.add("indexset_full");
    if (mem.size() >= 2 && mem.size() < TA.size()) I.R.labels.add("indexset_proper");
    if (!I.produce(dst, fc, e, T, "CONVERT_TO_INDEX_SET")) return false;

    // cardinality stored in the root and in every node below
    forest* F = W.F[fc];
    const dd_edge& E = *W.slots[size_t(dst)].e;
    const int K = W.domOf(fc).K();
    std::map<node_handle, long> memo;
    std::function<long(node_handle, int)> below = [&](node_handle p, int L) -> long {
        // number of members among the assignments of levels 1..L under edge p
        if (p == 0) return 0;
        long skip = 1;
        int pl = p > 0 ? F->getNodeLevel(p) : 0;
        for (int l = L; l > pl; l--) skip *= W.domOf(fc).sizes[size_t(F->getVarByLevel(l))];
        if (p < 0) return skip;
        auto it = memo.find(p);
        long c;
        if (it != memo.end()) c = it->second;
        else {
            unpacked_node* U = unpacked_node::newFromNode(F, p, SPARSE_ONLY);
            std::vector<node_handle> dn;
            for (unsigned z = 0; z < U->getSize(); z++) dn.push_back(U->down(z));
            unpacked_node::Recycle(U);
            c = 0;
            for (auto d : dn) c += below(d, pl - 1);
            memo[p] = c;
        }
        return c * skip;
    };
    long total = below(E.getNode(), K);
    if (total != long(mem.size())) return I.fail("C15.cardinality", "index set holds " + std::to_string(total) + " finite entries, the set has " + std::to_string(mem.size()) + " members");
    for (auto& kv : memo) {
        long got = F->getIndexSetCardinality(kv.first);
        if (got != kv.second) return I.fail("C15.cardinality", "node " + std::to_string(kv.first) + " stores cardinality " + std::to_string(got) + ", members below it: " + std::to_string(kv.second));
    }
    if (E.getNode() > 0 && F->getIndexSetCardinality(E.getNode()) != long(mem.size()))
        return I.fail("C15.cardinality", "root cardinality differs from the number of members");

    // getElement for every index and for indexes outside 0..n-1
    minterm m(F);
    const long n = long(mem.size());
    std::vector<long> probes;
    for (long i = 0; i < n; i++) probes.push_back(i);
    probes.push_back(-1); probes.push_back(n); probes.push_back(n + 5);
    for (long i : probes) {
        bool got;
        try { got = E.getElement(i, m); }
        catch (MEDDLY::error& er) { return I.fail("exception", "getElement(" + std::to_string(i) + ") threw " + er.getName()); }
        const bool want = (i >= 0 && i < n);
        if (got != want) return I.fail("C15.getElement", "getElement(" + std::to_string(i) + ") returned " + (got ? "true" : "false") + " for a set of " + std::to_string(n) + " members");
        if (!want) continue;
        std::vector<int> key;
        for (int lvl = K; lvl >= 1; lvl--) key.push_back(m.from(unsigned(lvl)));
        if (key != mem[size_t(i)].key) return I.fail("C15.getElement", "getElement(" + std::to_string(i) + ") returned the wrong member");
    }
    I.R.labels.add("getelement_probes", long(probes.size()));
    return true;
}

// bigindex quasi K s_1..s_K m_1..m_K nsamples seed
//
// A set too large to enumerate: the product of per-variable subsets (m_k = bit mask of the allowed values of
// variable k) over a domain of its own with up to 28 variables, so that it can have far more than 2^31
// members.  Lexicographic rank, i-th member and cardinalities have closed forms (mixed radix numbers), which
// are compared with evaluate() / getElement() at sampled points and with the stored cardinalities.
static bool doBigIndex(Interp& I, const Step& s)
{
    if (s.size() < 4) { I.skip("bigindex-short"); return true; }
    const bool quasi = toInt(s[1]) != 0;
    const int K = toInt(s[2]);
    if (K < 1 || K > 28 || int(s.size()) != 3 + 2 * K + 2) { I.skip("bigindex-shape"); return true; }
    std::vector<int> sz(size_t(K) + 1), cnt(size_t(K) + 1);
    std::vector<unsigned> mask(size_t(K) + 1);
    std::vector<std::vector<int>> allowed(size_t(K) + 1);
    for (int k = 1; k <= K; k++) {
        sz[size_t(k)] = toInt(s[size_t(2 + k)]);
        mask[size_t(k)] = unsigned(atol(s[size_t(2 + K + k)].c_str()));
        if (sz[size_t(k)] < 1 || sz[size_t(k)] > 16) { I.skip("bigindex-size"); return true; }
        for (int v = 0; v < sz[size_t(k)]; v++) if (mask[size_t(k)] & (1u << v)) allowed[size_t(k)].push_back(v);
        cnt[size_t(k)] = int(allowed[size_t(k)].size());
        if (!cnt[size_t(k)]) { I.skip("bigindex-empty"); return true; }
    }
    const int nsamples = toInt(s[size_t(3 + 2 * K)]);
    Xo R(uint64_t(atol(s[size_t(4 + 2 * K)].c_str())) * 2654435761ULL + 17);
    // n = product of the counts; weight[k] = product of the counts below level k
    std::vector<long> weight(size_t(K) + 2, 1);
    long n = 1;
    for (int k = 1; k <= K; k++) {
        weight[size_t(k)] = n;
        if (n > (1L << 61) / cnt[size_t(k)]) { I.skip("bigindex-too-big"); return true; }
        n *= cnt[size_t(k)];
    }
    domain* d = domain::createBottomUp(sz.data() + 1, unsigned(K));
    bool ok = true;
    std::string tag, msg;
    auto bad = [&](const std::string& t, const std::string& m) { if (ok) { ok = false; tag = t; msg = m; } };
    try {
        policies ps(false), px(false);
        if (quasi) ps.setQuasiReduced(); else ps.setFullyReduced();
        forest* FS = forest::create(d, SET, range_type::BOOLEAN, edge_labeling::MULTI_TERMINAL, ps);
        forest* FX = forest::create(d, SET, range_type::INTEGER, edge_labeling::INDEX_SET, px);
        dd_edge S(FS);
        FS->createConstant(true, S);
        for (int k = 1; k <= K; k++) {
            std::vector<rangeval> terms;
            for (int v = 0; v < sz[size_t(k)]; v++) terms.push_back(rangeval(bool(mask[size_t(k)] & (1u << v))));
            dd_edge c(FS);
            FS->createEdgeForVar(k, false, terms.data(), c);
            apply(INTERSECTION, S, c, S);
        }
        long card = -1;
        apply(CARDINALITY, S, card);
        if (card != n) bad("C11.cardinality", "CARDINALITY(long) of the product set = " + std::to_string(card) + ", closed form " + std::to_string(n));
        dd_edge X(FX);
        apply(CONVERT_TO_INDEX_SET, S, X);
        I.R.labels.add("op.bigindex");
        if (n > 2147483647L) I.R.labels.add("indexset_over_2^31_members");
        // stored cardinality of the root
        if (ok && X.getNode() > 0) {
            const long got = long(FX->getIndexSetCardinality(X.getNode()));
            if (got != n) bad("C15.cardinality", "the root of the index set stores cardinality " + std::to_string(got) + ", the set has " + std::to_string(n) + " members");
        }
        minterm m(FX);
        auto rankOf = [&](const std::vector<int>& pos) { long r = 0; for (int k = 1; k <= K; k++) r += long(pos[size_t(k)]) * weight[size_t(k)]; return r; };
        for (int it = 0; ok && it < nsamples; it++) {
            // a member: position pos[k] within the allowed values of variable k
            std::vector<int> pos(size_t(K) + 1, 0);
            for (int k = 1; k <= K; k++) {
                int c = cnt[size_t(k)];
                pos[size_t(k)] = (it == 0) ? 0 : (it == 1) ? c - 1 : int(R.below(uint32_t(c)));
            }
            for (int k = 1; k <= K; k++) m.setVar(unsigned(k), allowed[size_t(k)][size_t(pos[size_t(k)])]);
            rangeval rv;
            X.evaluate(m, rv);
            const long want = rankOf(pos);
            if (rv.isPlusInfinity() || long(rv) != want) {
                bad("C15.rank", "evaluate() of a member with lexicographic rank " + std::to_string(want) + " gives " + (rv.isPlusInfinity() ? std::string("+infinity") : std::to_string(long(rv))));
                break;
            }
            // a non-member, if there is one: one variable at a value outside its subset
            std::vector<int> cand;
            for (int k = 1; k <= K; k++) if (cnt[size_t(k)] < sz[size_t(k)]) cand.push_back(k);
            if (!cand.empty()) {
                const int k = cand[R.below(uint32_t(cand.size()))];
                int v = 0; while (mask[size_t(k)] & (1u << v)) v++;
                m.setVar(unsigned(k), v);
                X.evaluate(m, rv);
                if (!rv.isPlusInfinity()) { bad("C15.rank", "evaluate() of a non-member gives " + std::to_string(long(rv)) + " instead of +infinity"); break; }
            }
            // the i-th member
            long i = (it == 0) ? 0 : (it == 1) ? n - 1 : long(R.bits() % uint64_t(n));
            minterm g(FX);
            if (!X.getElement(i, g)) { bad("C15.getElement", "getElement(" + std::to_string(i) + ") fails for a set of " + std::to_string(n) + " members"); break; }
            long rest = i;
            for (int k = K; k >= 1; k--) {
                const int p = int(rest / weight[size_t(k)]); rest %= weight[size_t(k)];
                if (g.from(unsigned(k)) != allowed[size_t(k)][size_t(p)]) { bad("C15.getElement", "getElement(" + std::to_string(i) + ") returned the wrong member (variable " + std::to_string(k) + ")"); break; }
            }
        }
        if (ok) {
            minterm g(FX);
            for (long i : {n, n + 1, -1L, 0x7fffffffffffffffL})
                if (X.getElement(i, g)) { bad("C15.getElement", "getElement(" + std::to_string(i) + ") succeeds for a set of " + std::to_string(n) + " members"); break; }
        }
        I.R.labels.add("bigindex_samples", long(nsamples));
    } catch (MEDDLY::error& er) {
        bad("exception", std::string("bigindex: ") + er.getName());
    }
    domain::destroy(d);
    if (!ok) return I.fail(tag, msg);
    return true;
}

// ---------------------------------------------------------------------------------------
// C13: variable reordering
// ---------------------------------------------------------------------------------------
static bool doReorder(Interp& I, const Step& s)
{
    // reorder f v_1 .. v_K      (variable that should sit at level 1..K)
    World& W = I.W;
    if (s.size() < 3) { I.skip("reorder-short"); return true; }
    const int f = toInt(s[1]);
    if (!I.okForest(f)) { I.skip("reorder-forest"); return true; }
    const int K = W.domOf(f).K();
    if (int(s.size()) != 2 + K) { I.skip("reorder-shape"); return true; }
    std::vector<int> l2v(size_t(K) + 1, 0);
    std::vector<char> seen(size_t(K) + 1, 0);
    for (int l = 1; l <= K; l++) {
        int v = toInt(s[size_t(1 + l)]);
        if (v < 1 || v > K || seen[size_t(v)]) { I.skip("reorder-notperm"); return true; }
        seen[size_t(v)] = 1; l2v[size_t(l)] = v;
    }
    forest* F = W.F[f];
    // LEVEL swap on relations is never performed on this tree (policies::isLevelSwap() tests VAR),
    // so every heuristic that waits for progress would spin forever: non-termination is no verdict
    // on C13 (DESIGN.md section 9, observation 12); the combination is not executed, and counted
    if (W.fs[size_t(f)].rel && W.fs[size_t(f)].swap == 1) { I.R.labels.add("excluded.reorder_levelswap_relation"); return true; }
    // other forests: orders and edges must not change
    std::vector<std::vector<int>> before(W.F.size());
    for (size_t g = 0; g < W.F.size(); g++) if (W.F[g] && int(g) != f && W.fs[g].dom == W.fs[size_t(f)].dom) {
        before[g].resize(size_t(K) + 1);
        W.F[g]->getVariableOrder(before[g].data());
    }
    std::vector<std::pair<size_t, dd_edge>> saved;
    for (size_t sl = 0; sl < W.slots.size(); sl++) if (I.liveSlot(int(sl)) && W.slots[sl].f != f) saved.push_back({sl, dd_edge(*W.slots[sl].e)});
    std::vector<int> cur(size_t(K) + 1);
    F->getVariableOrder(cur.data());
    const bool identity = (cur == l2v);
    try {
        F->reorderVariables(l2v.data());
    } catch (MEDDLY::error& er) {
        if (er.getCode() == error::NOT_IMPLEMENTED || er.getCode() == error::INVALID_OPERATION) { I.R.labels.add("unsupported.reorder"); return true; }
        return I.fail("exception", std::string("reorderVariables threw ") + er.getName());
    }
    std::vector<int> after(size_t(K) + 1);
    F->getVariableOrder(after.data());
    I.R.labels.add("op.reorder");
    I.R.labels.add(std::string("reorder.heuristic") + char('0' + W.fs[size_t(f)].reorder) + (W.fs[size_t(f)].swap ? ".level" : ".var"));
    if (!identity) I.R.labels.add("reorder_nonidentity");
    I.R.labels.add(after == l2v ? "order_achieved" : "order_not_achieved");
    {
        int held = 0;
        for (size_t sl = 0; sl < W.slots.size(); sl++) if (I.liveSlot(int(sl)) && W.slots[sl].f == f) held++;
        if (held >= 2) I.R.labels.add("reorder_2held_edges");
    }
    for (size_t g = 0; g < W.F.size(); g++) if (!before[g].empty()) {
        std::vector<int> now(size_t(K) + 1);
        W.F[g]->getVariableOrder(now.data());
        if (now != before[g]) return I.fail("C13.other-forest-order", "reordering forest " + std::to_string(f) + " changed the variable order of forest " + std::to_string(g));
    }
    for (auto& pr : saved) if (!(pr.second == *W.slots[pr.first].e)) return I.fail("C13.other-forest-edge", "reordering changed an edge of another forest");
    // held edges of f are re-evaluated by the after-step check (minterm positions follow the new order)
    return true;
}

// ---------------------------------------------------------------------------------------
// C14: exchange files
// ---------------------------------------------------------------------------------------
static bool sameKindForest(const FSpec& a, const FSpec& b)
{
    return a.dom == b.dom && a.rel == b.rel && a.range == b.range && a.label == b.label && a.red == b.red;
}

static bool doWrite(Interp& I, const Step& s)
{
    // write f s1 s2 ...
    World& W = I.W;
    I.iobuf.clear(); I.ioTables.clear(); I.ioSlots.clear(); I.ioForest = -1;
    if (s.size() < 2) { I.skip("write-short"); return true; }
    const int f = toInt(s[1]);
    if (!I.okForest(f)) { I.skip("write-forest"); return true; }
    std::vector<int> roots;
    for (size_t i = 2; i < s.size(); i++) { int sl = toInt(s[i]); if (I.liveSlot(sl) && W.slots[size_t(sl)].f == f) roots.push_back(sl); }
    std::ostringstream os;
    try {
        ostream_output out(os);
        mdd_writer w(out, W.F[f]);
        for (int sl : roots) w.writeRootEdge(*W.slots[size_t(sl)].e);
        w.finish();
    } catch (MEDDLY::error& er) {
        return I.fail("exception", std::string("mdd_writer threw ") + er.getName());
    }
    I.iobuf = os.str();
    I.ioForest = f;
    I.ioSpec = W.fs[size_t(f)];
    for (int sl : roots) { I.ioTables.push_back(W.slots[size_t(sl)].T); I.ioSlots.push_back(sl); }
    I.R.labels.add("op.write");
    {
        std::set<int> distinct(roots.begin(), roots.end());
        if (distinct.size() < roots.size()) I.R.labels.add("write_repeated_root");
        for (int sl : roots) if (W.slots[size_t(sl)].e->getNode() <= 0) I.R.labels.add("write_terminal_root");
        if (roots.size() >= 2) I.R.labels.add("write_2roots");
    }
    return true;
}

static bool doRead(Interp& I, const Step& s)
{
    // read same|forest|domain f dst0
    World& W = I.W;
    if (s.size() < 4) { I.skip("read-short"); return true; }
    if (I.ioForest < 0 || I.iobuf.empty()) { I.skip("read-nothing-written"); return true; }
    const std::string& mode = s[1];
    int f = toInt(s[2]);
    const int dst0 = toInt(s[3]);
    if (dst0 < 0 || dst0 + int(I.ioTables.size()) > 64) { I.skip("read-slots"); return true; }
    std::istringstream is(I.iobuf);
    istream_input in(is);
    mdd_reader* rd = nullptr;
    try {
        if (mode == "domain") {
            // known finding KF-C14-reduction-not-recorded: the file does not record the reduction rule
            // (a relation is read into an identity-reduced forest whatever rule the writer had: a
            // fully-reduced writer's skipped levels change meaning, a quasi-reduced writer's nodes
            // are stored without identity reduction)
            if (I.ioSpec.rel && I.ioSpec.red != 'I' && !I.strictErrors) { I.R.labels.add("excluded.read_domain_nonidentity_relation"); return true; }
            if (!W.doms[size_t(I.ioSpec.dom)].d) { I.skip("read-domain-gone"); return true; }
            rd = new mdd_reader(in, W.doms[size_t(I.ioSpec.dom)].d);
            forest* NF = rd->getForest();
            if (!NF) { delete rd; return I.fail("C14.no-forest", "mdd_reader(input, domain) created no forest"); }
            FSpec ns = I.ioSpec;
            ns.red = NF->isFullyReduced() ? 'F' : NF->isQuasiReduced() ? 'Q' : 'I';
            ns.stor = int(NF->getPolicies().storage_flags);
            ns.del = NF->getPolicies().isPessimistic() ? 'P' : 'O';
            if (NF->isForRelations() != ns.rel) { delete rd; return I.fail("C14.forest-kind", "forest created from the file has the wrong set/relation shape"); }
            W.fs.push_back(ns);
            W.F.push_back(NF);
            f = int(W.F.size()) - 1;
        } else {
            if (mode == "same") f = I.ioForest;
            if (!I.okForest(f)) { I.skip("read-forest"); return true; }
            if (!sameKindForest(W.fs[size_t(f)], I.ioSpec)) { I.skip("read-kind"); return true; }
            {
                std::vector<int> oa(size_t(W.domOf(f).K()) + 1);
                W.F[size_t(f)]->getVariableOrder(oa.data());
                for (size_t l = 1; l < oa.size(); l++) if (oa[l] != int(l)) { I.skip("read-order"); return true; }
            }
            rd = new mdd_reader(in, W.F[size_t(f)]);
        }
        if (rd->numRoots() != I.ioTables.size()) {
            std::string m = "file has " + std::to_string(rd->numRoots()) + " roots, " + std::to_string(I.ioTables.size()) + " were written";
            delete rd; return I.fail("C14.root-count", m);
        }
        for (size_t i = 0; i < I.ioTables.size(); i++) {
            dd_edge* e = new dd_edge(W.F[size_t(f)]);
            rd->readRootEdge(*e);
            Table want = I.ioTables[i];
            if (W.fs[size_t(f)].range == 'R') {
                // "to the printed precision": reals are written with 6-10 significant digits per
                // terminal / edge value, and EV* values are products of several printed edge values
                for (auto& v : want) if (v.t == VR) v.s = 20.0 * std::fabs(v.d) + 1.0;
            }
            if (!I.produce(dst0 + int(i), f, e, want, "readRootEdge")) { delete rd; return false; }
            if (W.fs[size_t(f)].range == 'R' && W.fs[size_t(f)].label == 'M') {
                // multi-terminal reals: the format prints terminals with 11 significant digits, which identifies a
                // float; compare with the values the *library* held when it wrote (the original edge, if it is
                // still there unchanged), not with the model: they must agree to that printed precision
                const int orig = I.ioSlots[i];
                if (I.liveSlot(orig) && sameKindForest(W.fs[size_t(W.slots[size_t(orig)].f)], W.fs[size_t(f)])
                    && W.slots[size_t(orig)].T.size() == I.ioTables[i].size()) {
                    bool sameT = true;
                    for (size_t k = 0; sameT && k < I.ioTables[i].size(); k++) if (!exactVal(W.slots[size_t(orig)].T[k], I.ioTables[i][k])) sameT = false;
                    Table a, b; Failure fl2;
                    if (sameT && expandEdge(W, W.slots[size_t(orig)].f, *W.slots[size_t(orig)].e, a, fl2)
                              && expandEdge(W, f, *W.slots[size_t(dst0 + int(i))].e, b, fl2) && a.size() == b.size()) {
                        for (size_t k = 0; k < a.size(); k++) {
                            if (a[k].t != VR || b[k].t != VR) continue;
                            const double mag = std::max(std::fabs(a[k].d), std::fabs(b[k].d));
                            if (std::fabs(a[k].d - b[k].d) > 1e-9 * mag) {
                                char buf[200];
                                snprintf(buf, sizeof buf, "real terminal written as %.10g came back as %.10g (root %zu): not the printed precision of the format", a[k].d, b[k].d, i);
                                delete rd; return I.fail("C14.real-precision", buf);
                            }
                        }
                        I.R.labels.add("read_real_values_compared_with_written");
                        for (size_t k = 0; k < a.size(); k++) if (a[k].t == VR && std::fabs(a[k].d) >= 1000.0 && a[k].d != std::floor(a[k].d)) { I.R.labels.add("read_real_7_digits"); break; }
                    }
                }
            }
            if (f == I.ioForest) {
                const int orig = I.ioSlots[i];
                if (I.liveSlot(orig) && W.slots[size_t(orig)].f == f) {
                    bool sameT = W.slots[size_t(orig)].T.size() == I.ioTables[i].size();
                    for (size_t k = 0; sameT && k < I.ioTables[i].size(); k++) if (!exactVal(W.slots[size_t(orig)].T[k], I.ioTables[i][k])) sameT = false;
                    if (sameT && W.fs[size_t(f)].label != 'T' && W.fs[size_t(f)].range != 'R') {
                        if (!(*W.slots[size_t(dst0 + int(i))].e == *W.slots[size_t(orig)].e)) { delete rd; return I.fail("C14.same-forest-identity", "edge read back into the writing forest is not the original edge"); }
                        I.R.labels.add("read_same_forest_identical");
                    }
                }
            }
        }
        delete rd;
    } catch (MEDDLY::error& er) {
        delete rd;
        return I.fail("exception", std::string("mdd_reader threw ") + er.getName());
    }
    I.R.labels.add("op.read." + mode);
    I.R.labels.add("op.read");
    return true;
}

bool Interp::doExtra(const Step& s, bool& handled)
{
    handled = true;
    const std::string& op = s[0];
    if (op == "un" && s.size() > 1 && s[1] == "INDEXSET") return doIndexSet(*this, s);
    if (op == "reorder") return doReorder(*this, s);
    if (op == "bigindex") return doBigIndex(*this, s);
    if (op == "write") return doWrite(*this, s);
    if (op == "read") return doRead(*this, s);
    if (op == "roundtrip") return doRoundTrip(*this, s);
    if (op == "iter") return doIter(*this, s);
    if (op == "counts") return doCounts(*this, s);
    if (op == "drain") return doDrain(*this, s);
    {
        bool h = false;
        bool ok = doReachFamily(*this, s, h);
        if (h) return ok;
        ok = doLifeFamily(*this, s, h);
        if (h) return ok;
    }
    handled = false;
    return true;
}

} // namespace mv
