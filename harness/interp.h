// interp.h -- the program interpreter
#ifndef MV_INTERP_H
#define MV_INTERP_H
#include "mv.h"

namespace mv {

struct PendingMinterm {
    std::vector<int> from, to;  // by variable, 1..K; DONT_CARE -1; to: DONT_CHANGE -2
    std::string valtok;
};

// result of the reference semantics of one operation
struct ModelRes {
    bool defined = true;              // false: the step is outside the sound input domain -> skipped
    std::string skipwhy;
    Table T;
    std::vector<int> mustThrow;       // non-empty: the call must raise one of these error codes
    std::vector<int> mayThrow;        // undocumented corners: the call may raise these, or return
    int proneErrors = 0;              // error points a library shortcut may absorb (known finding; strict mode asserts them)
};

struct Interp {
    World W;
    const Program& P;
    Checks C;
    RunResult R;
    std::vector<PendingMinterm> pending;
    std::string iobuf;                 // exchange "file"
    std::vector<Table> ioTables;       // model of what was written
    int ioForest = -1;                 // forest the file was written from
    FSpec ioSpec;
    std::vector<int> ioSlots;          // slots that were written, in order
    long nodeDeaths = 0;
    bool strictErrors = false;         // step 'strict': assert even the error points a shortcut may absorb
    std::vector<int> pendingEvents;    // relation slots pushed by 'event' steps (partitioned saturation)
    std::vector<unsigned> destroyedFids;   // forest identifiers retired in this initialisation
    std::vector<std::vector<MEDDLY::dd_edge*>> piles;   // edge copies kept by `hold` until `unhold`
    std::vector<int> pileForest;
    // combinations excluded by construction because of a recorded known finding (interp_reach.cc)
    bool excludedCombo(const char* family, const std::string& combo, const std::string& alg,
                       const FSpec& relSpec, int setKind) const;
    std::vector<std::map<long, uint64_t>> sigs;   // per forest: handle -> content signature (reuse detection)

    Interp(const Program& p, const Checks& c) : P(p), C(c) {}

    void run();
    bool step(const Step& s, int index);      // false: failure recorded in R

    // helpers
    bool fail(const std::string& tag, const std::string& msg) { R.ok = false; R.fail = {tag, msg}; return false; }
    bool liveSlot(int s) const { return s >= 0 && s < int(W.slots.size()) && W.slots[s].live() && W.F[W.slots[s].f]; }
    bool okForest(int f) const { return f >= 0 && f < int(W.F.size()) && W.F[f] != nullptr; }
    bool sameShape(int fa, int fb) const { return W.fs[fa].dom == W.fs[fb].dom && W.fs[fa].rel == W.fs[fb].rel; }
    void skip(const std::string& why) { R.labels.add("skip." + why); }

    // check a freshly produced edge against its table with the enabled oracles and store it
    bool produce(int dst, int f, MEDDLY::dd_edge* e, const Table& T, const char* what);
    bool checkEdge(int f, const MEDDLY::dd_edge& e, const Table& T, const char* what);
    bool afterStep(int index);
    bool auditAll();
    void noteForestLabels();

    // step families (interp.cc)
    bool doMinterm(const Step& s);
    bool doColl(const Step& s);
    bool doOne(const Step& s);
    bool doConst(const Step& s);
    bool doVar(const Step& s);
    bool doUnary(const Step& s);
    bool doBinary(const Step& s);
    bool doScalar(const Step& s);
    bool doEdgeOps(const Step& s);
    // interp_ext.cc
    bool doExtra(const Step& s, bool& handled);
};

// reference semantics (semantics.cc)
ModelRes modelUnary(const World& W, const std::string& op, int fa, const Table& A, int fc);
ModelRes modelBinary(const World& W, const std::string& op, int fa, const Table& A, int fb,
                     const Table& B, int fc, bool strict);
Val convertVal(const Val& v, const FSpec& from, const FSpec& to);   // COPY conversion
MEDDLY::binary_factory* binaryFactory(const std::string& op);
MEDDLY::unary_factory* unaryFactory(const std::string& op);
bool userMap(const std::string& op, const Val& x, char resRange, Val& y);
bool doReachFamily(Interp& I, const Step& s, bool& handled);    // interp_reach.cc
bool doLifeFamily(Interp& I, const Step& s, bool& handled);     // interp_life.cc

} // namespace mv
#endif
