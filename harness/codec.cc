// codec.cc -- C19: terminal / edge-value codecs (exhaustive in the thorough tier)
#include "mv.h"
#include <cmath>
#include <cstring>

using namespace MEDDLY;

namespace mv {

static const long IMIN = -1073741824L, IMAX = 1073741823L;

// one integer through the terminal codec; outside [IMIN, IMAX] it must be rejected
bool codecCheckInt(long v, Failure& fl)
{
    char buf[160];
    terminal t(v, terminal_type::INTEGER);
    node_handle h = 0;
    bool threw = false; int code = -1;
    try { h = t.getHandle(); }
    catch (MEDDLY::error& e) { threw = true; code = int(e.getCode()); }
    const bool inrange = (v >= IMIN && v <= IMAX);
    if (!inrange) {
        if (!threw || code != int(error::VALUE_OVERFLOW)) {
            snprintf(buf, sizeof buf, "integer %ld is outside the terminal range but was %s", v, threw ? "rejected with another code" : "accepted");
            fl = {"C19.int-overflow", buf}; return false;
        }
        return true;
    }
    if (threw) { snprintf(buf, sizeof buf, "integer %ld in range was rejected", v); fl = {"C19.int-rejected", buf}; return false; }
    if (h > 0) { snprintf(buf, sizeof buf, "integer %ld encodes to a positive (non-terminal) handle %ld", v, long(h)); fl = {"C19.int-handle", buf}; return false; }
    if ((v == 0) != (h == 0)) { snprintf(buf, sizeof buf, "integer %ld / handle %ld: zero must be the unique transparent handle", v, long(h)); fl = {"C19.int-zero", buf}; return false; }
    terminal d(terminal_type::INTEGER, h);
    if (d.getInteger() != v) { snprintf(buf, sizeof buf, "integer %ld decodes to %ld", v, d.getInteger()); fl = {"C19.int-roundtrip", buf}; return false; }
    return true;
}

// one float bit pattern; returns false on violation; *excluded set when the pattern is one of the two
// denormals whose rounding is 0 but whose handle is not
bool codecCheckFloat(uint32_t bits, Failure& fl, bool* excluded)
{
    char buf[200];
    float f; memcpy(&f, &bits, 4);
    if (f != f) return true;        // NaN: outside the quantifier
    if (excluded) *excluded = false;
    terminal t(f);
    node_handle h = t.getHandle();
    // independent rounding: clear the last mantissa bit
    uint32_t rb = bits & ~1u; float want; memcpy(&want, &rb, 4);
    if (h > 0) { snprintf(buf, sizeof buf, "float bits %08x encode to a positive handle", bits); fl = {"C19.real-handle", buf}; return false; }
    terminal d(terminal_type::REAL, h);
    const double got = d.getReal();
    if (got != double(want)) {
        snprintf(buf, sizeof buf, "float bits %08x (%.9g) decode to %.9g, expected %.9g", bits, double(f), got, double(want));
        fl = {"C19.real-roundtrip", buf}; return false;
    }
    if (want == 0.0f && f != 0.0f) { if (excluded) *excluded = true; return true; }     // +-1.4e-45
    if ((f == 0.0f) != (h == 0)) { snprintf(buf, sizeof buf, "float bits %08x: value %s zero but handle %s 0", bits, f == 0.0f ? "is" : "is not", h == 0 ? "is" : "is not"); fl = {"C19.real-zero", buf}; return false; }
    // distinct rounded values => distinct handles: the handle must determine the rounded bits
    {
        uint32_t back = uint32_t(h) << 1;
        if (f != 0.0f && back != rb) { snprintf(buf, sizeof buf, "float bits %08x: handle does not determine the rounded value", bits); fl = {"C19.real-distinct", buf}; return false; }
    }
    return true;
}

bool codecCheckBool(Failure& fl)
{
    terminal t(true), f(false);
    if (t.getHandle() == f.getHandle() || f.getHandle() != 0) { fl = {"C19.bool", "boolean handles: false must be the transparent handle 0 and differ from true"}; return false; }
    if (!terminal(terminal_type::BOOLEAN, t.getHandle()).getBoolean() || terminal(terminal_type::BOOLEAN, f.getHandle()).getBoolean()) { fl = {"C19.bool", "boolean round trip"}; return false; }
    return true;
}

// a value through a live forest: handleForValue / getValueFromHandle and createConstant + evaluate
bool codecCheckForest(long v, Failure& fl)
{
    char buf[200];
    MEDDLY::initialize();
    int sizes[2] = {2, 3};
    domain* D = domain::createBottomUp(sizes, 2);
    bool ok = true;
    try {
        forest* FI = forest::create(D, SET, range_type::INTEGER, edge_labeling::MULTI_TERMINAL);
        forest* FR = forest::create(D, SET, range_type::REAL, edge_labeling::MULTI_TERMINAL);
        forest* FP = forest::create(D, SET, range_type::INTEGER, edge_labeling::EVPLUS);
        minterm m(FI); m.setVar(1, 1); m.setVar(2, 2);
        const bool inrange = (v >= IMIN && v <= IMAX);
        // MT integer
        {
            bool threw = false; int code = -1; long got = 0;
            try {
                dd_edge e(FI); FI->createConstant(rangeval(v), e);
                rangeval rv; e.evaluate(m, rv); got = long(rv);
                node_handle h = FI->handleForValue(v); long back; FI->getValueFromHandle(h, back);
                if (back != v) { snprintf(buf, sizeof buf, "forest handleForValue/getValueFromHandle: %ld -> %ld", v, back); fl = {"C19.forest-int", buf}; ok = false; }
            } catch (MEDDLY::error& e) { threw = true; code = int(e.getCode()); }
            if (ok && inrange && (threw || got != v)) { snprintf(buf, sizeof buf, "createConstant(%ld)+evaluate = %ld%s", v, got, threw ? " (threw)" : ""); fl = {"C19.forest-int", buf}; ok = false; }
            if (ok && !inrange && (!threw || code != int(error::VALUE_OVERFLOW))) { snprintf(buf, sizeof buf, "createConstant(%ld) outside the terminal range was not rejected with VALUE_OVERFLOW", v); fl = {"C19.forest-overflow", buf}; ok = false; }
        }
        // EV+ keeps 64-bit values and +infinity
        if (ok) {
            minterm mp(FP); mp.setVar(1, 0); mp.setVar(2, 1);
            long big = v * 4099L + (v < 0 ? -7 : 7);
            dd_edge e(FP); FP->createConstant(rangeval(big), e);
            rangeval rv; e.evaluate(mp, rv);
            if (!rv.isNormal() || long(rv) != big) { snprintf(buf, sizeof buf, "EV+ constant %ld evaluates differently", big); fl = {"C19.evplus-long", buf}; ok = false; }
            dd_edge inf(FP); FP->createConstant(rangeval(range_special::PLUS_INFINITY, range_type::INTEGER), inf);
            inf.evaluate(mp, rv);
            if (ok && !rv.isPlusInfinity()) { fl = {"C19.evplus-inf", "EV+ constant +infinity does not evaluate to +infinity"}; ok = false; }
        }
        // MT real: value k/8 exactly representable
        if (ok) {
            minterm mr(FR); mr.setVar(1, 1); mr.setVar(2, 0);
            double x = double(v % 100000) / 8.0;
            dd_edge e(FR); FR->createConstant(rangeval(x), e);
            rangeval rv; e.evaluate(mr, rv);
            if (double(rv) != x) { snprintf(buf, sizeof buf, "MT real constant %.9g evaluates to %.9g", x, double(rv)); fl = {"C19.forest-real", buf}; ok = false; }
        }
    } catch (MEDDLY::error& e) {
        snprintf(buf, sizeof buf, "unexpected error %s for value %ld", e.getName(), v); fl = {"exception", buf}; ok = false;
    }
    MEDDLY::cleanup();
    return ok;
}

// campaign: returns 0 ok / 2 failure; writes counters into L; failing case text into desc
int runCodecCampaign(int tier, unsigned worker, unsigned workers, uint64_t seed, Labels& L, Failure& fl, std::string& desc)
{
    char buf[64];
    Xo R(seed * 7919 + worker);
    if (!codecCheckBool(fl)) { desc = "bool\n"; return 2; }
    long nInt = 0, nOut = 0, nFloat = 0, nExcl = 0, nNontrivial = 0;
    auto doInt = [&](long v) -> bool {
        if (!codecCheckInt(v, fl)) { snprintf(buf, sizeof buf, "int %ld\n", v); desc = buf; return false; }
        if (v < IMIN || v > IMAX) nOut++; else nInt++;
        if (v > 42 || v < -42) nNontrivial++;
        return true;
    };
    auto doFloat = [&](uint32_t b) -> bool {
        bool ex = false;
        if (!codecCheckFloat(b, fl, &ex)) { snprintf(buf, sizeof buf, "float %u\n", b); desc = buf; return false; }
        nFloat++; if (ex) nExcl++;
        float f; memcpy(&f, &b, 4); if (f == f && std::fabs(f) > 42) nNontrivial++;
        return true;
    };
    if (tier) {
        // exhaustive: all 2^31 representable integers, the 2^25 values just outside each limit (every rejection
        // is a C++ exception, which bounds how many are affordable), all 2^32 float patterns
        for (long v = IMIN + long(worker); v <= IMAX; v += long(workers)) if (!doInt(v)) return 2;
        for (long v = IMAX + 1 + long(worker); v <= IMAX + (1L << 25); v += long(workers)) if (!doInt(v) || !doInt(-v - 1)) return 2;
        for (uint64_t b = worker; b <= 0xffffffffULL; b += workers) if (!doFloat(uint32_t(b))) return 2;
        L.add("exhaustive");
    }
    {
        // boundary-stratified sample + random
        static const long edges[] = {0, 1, -1, 2, -2, 42, 43, -43, 255, 256, 65535, 65536, IMAX, IMAX - 1, IMIN, IMIN + 1, IMAX + 1, IMIN - 1,
                                     (1L << 31) - 1, -(1L << 31), 1L << 31, (1L << 32), -(1L << 32), (1L << 40), -(1L << 40), 0x7fffffffffffffffL, (long) 0x8000000000000000UL};
        for (long e : edges) for (long d = -3; d <= 3; d++) { long v = e; if (!__builtin_add_overflow(e, d, &v)) if (!doInt(v)) return 2; }
        for (int k = 0; k < 62; k++) { if (!doInt(1L << k) || !doInt(-(1L << k)) || !doInt((1L << k) - 1)) return 2; }
        for (long i = 0; i < 150000; i++) {
            long v = long(R.bits() % (1UL << 31)) - (1L << 30);
            if (!doInt(v)) return 2;
            long w = long(R.bits() << 11 | R.bits() >> 20);
            if (!doInt(w >> (R.below(34)))) return 2;
        }
        static const uint32_t fedges[] = {0, 1, 2, 3, 0x80000000u, 0x80000001u, 0x007fffffu, 0x00800000u, 0x00800001u, 0x3f800000u, 0x3f800001u, 0x3f7fffffu,
                                          0x7f7fffffu, 0x7f800000u, 0xff800000u, 0xff7fffffu, 0x4b800000u, 0x4b7fffffu, 0x42280000u, 0x42280001u};
        for (uint32_t b : fedges) for (int d = -2; d <= 2; d++) if (!doFloat(b + uint32_t(d))) return 2;
        for (uint32_t ex = 0; ex < 256; ex++) for (uint32_t mn : {0u, 1u, 2u, 0x400000u, 0x7ffffeu, 0x7fffffu}) for (uint32_t s = 0; s < 2; s++) if (!doFloat((s << 31) | (ex << 23) | mn)) return 2;
        for (long i = 0; i < 300000; i++) if (!doFloat(uint32_t(R.bits()))) return 2;
        // through live forests (a few values per worker)
        static const long fv[] = {0, 1, -1, 43, -43, 1000, IMAX, IMIN, IMAX + 1, IMIN - 1, 1L << 31, 77777, -123456};
        for (size_t i = worker; i < sizeof fv / sizeof fv[0]; i += workers) {
            if (!codecCheckForest(fv[i], fl)) { snprintf(buf, sizeof buf, "forest %ld\n", fv[i]); desc = buf; return 2; }
            L.add("forest_values");
        }
    }
    L.add("int_in_range", nInt); L.add("int_out_of_range", nOut); L.add("float_patterns", nFloat);
    L.add("excluded.denormal_rounds_to_zero", nExcl); L.add("nontrivial_values", nNontrivial);
    return 0;
}

int replayCodec(const std::string& text, Failure& fl)
{
    std::istringstream in(text);
    std::string line;
    while (std::getline(in, line)) {
        std::istringstream ls(line);
        std::string op; ls >> op;
        if (op == "int") { long v; ls >> v; if (!codecCheckInt(v, fl)) return 2; }
        else if (op == "float") { unsigned long b; ls >> b; if (!codecCheckFloat(uint32_t(b), fl, nullptr)) return 2; }
        else if (op == "forest") { long v; ls >> v; if (!codecCheckForest(v, fl)) return 2; }
        else if (op == "bool") { if (!codecCheckBool(fl)) return 2; }
    }
    return 0;
}

} // namespace mv
