// mv.h -- shared declarations of the MEDDLY verification harness (mvh)
//
// A *case* is a program: world description (compute-table settings, domains, forests)
// followed by steps.  The interpreter executes the steps against MEDDLY and, in
// parallel, against an explicit value-table model computed by plain scalar code.
//
#ifndef MV_H
#define MV_H

#include "meddly.h"
#include "unique_table.h"
#include "node_storage.h"

#include <cstdint>
#include <cstdio>
#include <cstdlib>
#include <cstring>
#include <map>
#include <set>
#include <string>
#include <vector>
#include <sstream>
#include <functional>

namespace mv {

// ---------------------------------------------------------------------------------------
// random sources: PRNG (generator campaigns) or a byte string (libFuzzer)
// ---------------------------------------------------------------------------------------
struct Rand {
    virtual ~Rand() {}
    virtual uint64_t bits() = 0;
    virtual bool exhausted() const { return false; }
    // uniform in [0,n)
    uint32_t below(uint32_t n) { return n ? uint32_t(bits() % n) : 0; }
    int range(int lo, int hi) { return lo + int(below(uint32_t(hi - lo + 1))); }
    bool chance(int pct) { return int(below(100)) < pct; }
    template <class T> const T& pick(const std::vector<T>& v) { return v[below(uint32_t(v.size()))]; }
};

struct Xo : Rand {      // xoshiro256**
    uint64_t s[4];
    static uint64_t splitmix(uint64_t& x) {
        uint64_t z = (x += 0x9e3779b97f4a7c15ULL);
        z = (z ^ (z >> 30)) * 0xbf58476d1ce4e5b9ULL;
        z = (z ^ (z >> 27)) * 0x94d049bb133111ebULL;
        return z ^ (z >> 31);
    }
    explicit Xo(uint64_t seed) { for (auto& w : s) w = splitmix(seed); }
    static uint64_t rotl(uint64_t x, int k) { return (x << k) | (x >> (64 - k)); }
    uint64_t bits() override {
        const uint64_t r = rotl(s[1] * 5, 7) * 9, t = s[1] << 17;
        s[2] ^= s[0]; s[3] ^= s[1]; s[1] ^= s[2]; s[0] ^= s[3]; s[2] ^= t; s[3] = rotl(s[3], 45);
        return r >> 11;
    }
};

struct ByteRand : Rand {    // structured decoding of fuzzer bytes; 0 when exhausted
    const uint8_t* p; size_t n, pos;
    ByteRand(const uint8_t* d, size_t sz) : p(d), n(sz), pos(0) {}
    bool exhausted() const override { return pos >= n; }
    uint64_t bits() override {
        uint64_t v = 0;
        for (int i = 0; i < 2; i++) { v = (v << 8) | (pos < n ? p[pos] : 0); if (pos < n) pos++; }
        return v;
    }
};

// ---------------------------------------------------------------------------------------
// values and tables
// ---------------------------------------------------------------------------------------
enum : uint8_t { VI = 0, VR = 1, VINF = 2, VUN = 3, VNEG = 4 };   // int/bool, real, +infinity, unspecified, "any negative value"
struct Val {
    uint8_t t; long i; double d;
    double s = 0;       // magnitude of the operands this value was computed from (widens the real tolerance)
    Val() : t(VI), i(0), d(0) {}
    static Val I(long x) { Val v; v.t = VI; v.i = x; return v; }
    static Val R(double x) { Val v; v.t = VR; v.d = x; return v; }
    static Val Inf() { Val v; v.t = VINF; return v; }
    static Val Un() { Val v; v.t = VUN; return v; }
    static Val Neg() { Val v; v.t = VNEG; v.i = -1; return v; }     // "unreachable" of MT-int distances
    bool isInf() const { return t == VINF; }
    bool isUn() const { return t == VUN; }
    double num() const { return t == VR ? d : double(i); }
};
bool sameVal(const Val& a, const Val& b);           // exact for ints, tolerance for reals
bool exactVal(const Val& a, const Val& b);          // bitwise-exact
std::string showVal(const Val& v);
std::string tokVal(const Val& v);                   // program-text token
bool parseVal(const std::string& tok, char range, Val& out);

typedef std::vector<Val> Table;

// ---------------------------------------------------------------------------------------
// world
// ---------------------------------------------------------------------------------------
struct CtSpec { int style = 1, stale = 1; long maxsize = 0; int compress = 0; };

struct FSpec {
    int dom = 0;
    bool rel = false;
    char range = 'B';       // B I R
    char label = 'M';       // M multi-terminal, P EV+, T EV*, X index set
    char red = 'F';         // F Q I
    int stor = 3;           // 1 full, 2 sparse, 3 either
    int mm = 1;             // 0 ORIGINAL_GRID 1 ARRAY_PLUS_GRID 2 MALLOC 3 HEAP
    char del = 'O';         // O P N
    int reorder = 2;        // policies::reordering_type
    int swap = 0;           // 0 VAR 1 LEVEL
    std::string text() const;
};

struct Dom {
    std::vector<int> sizes;       // sizes[1..K]; sizes[0] unused
    MEDDLY::domain* d = nullptr;
    int K() const { return int(sizes.size()) - 1; }
    long nstates() const { long n = 1; for (int v = 1; v <= K(); v++) n *= sizes[v]; return n; }
};

struct Slot {
    MEDDLY::dd_edge* e = nullptr;
    int f = -1;
    Table T;
    bool live() const { return e != nullptr; }
};

struct Failure {
    std::string tag;     // oracle tag, e.g. "O1.model", "O3.duplicate", "exception"
    std::string msg;
};

struct World {
    CtSpec ct;
    std::vector<Dom> doms;
    std::vector<FSpec> fs;
    std::vector<MEDDLY::forest*> F;      // null after destruction
    std::vector<Slot> slots;
    bool inited = false;

    void start(const CtSpec& c);         // initialize library with CT settings
    int addDomain(const std::vector<int>& sizes1);   // sizes for var 1..K
    int addForest(const FSpec& s);       // returns index or -1 when forest::create refuses
    void release(int slot);
    void setSlot(int slot, int f, MEDDLY::dd_edge* e, const Table& T);
    void stop();                         // delete edges, cleanup library
    ~World();

    // geometry
    const Dom& domOf(int f) const { return doms[fs[f].dom]; }
    long tableSize(int f) const { long n = domOf(f).nstates(); return fs[f].rel ? n * n : n; }
    Val transparent(int f) const;        // the forest's default ("transparent") value
    // decode a table index into per-variable assignments (1-based arrays sized K+1)
    void decode(int f, long idx, std::vector<int>& from, std::vector<int>& to) const;
    long encode(int f, const std::vector<int>& from, const std::vector<int>& to) const;
    // fill a MEDDLY minterm for assignment (positions are LEVELS of forest f)
    void fillMinterm(int f, MEDDLY::minterm& m, const std::vector<int>& from,
                     const std::vector<int>& to) const;
};

Val fromRangeval(const MEDDLY::rangeval& r);
MEDDLY::rangeval toRangeval(const Val& v, char range);

// ---------------------------------------------------------------------------------------
// oracles (return false and fill fail on violation)
// ---------------------------------------------------------------------------------------
// O1: pointwise evaluate() against table
bool oracleEval(World& W, int f, const MEDDLY::dd_edge& e, const Table& T, Failure& fail,
                long* unspecSkipped = nullptr);
// O2: independent expansion of the diagram against table
bool oracleExpand(World& W, int f, const MEDDLY::dd_edge& e, const Table& T, Failure& fail);
// expansion alone (used by differential checks); false if structure is unreadable
bool expandEdge(World& W, int f, const MEDDLY::dd_edge& e, Table& out, Failure& fail);
// O3: structural audit of every active node of forest f
struct AuditStats { long nodes = 0, sparse = 0, full = 0, skips = 0, maxsize = 0; };
bool oracleAudit(World& W, int f, Failure& fail, AuditStats* st = nullptr);
// O4: reference recount of forest f
bool oracleRecount(World& W, int f, Failure& fail, bool exact = true);
// O5: cache-count recount of forest f
bool oracleCacheCount(World& W, int f, Failure& fail);
// number of active nodes / nodes reachable from registered roots
long activeNodes(MEDDLY::forest* F);
long reachableFromRoots(MEDDLY::forest* F);
// handle-free canonical form of an edge (for configuration differentials)
std::string canonicalForm(World& W, int f, const MEDDLY::dd_edge& e);
// number of distinct nodes / non-transparent edges below e, by the harness' own DFS
void countBelow(World& W, int f, const MEDDLY::dd_edge& e, unsigned long& nodes,
                unsigned long& edges);

// ---------------------------------------------------------------------------------------
// programs
// ---------------------------------------------------------------------------------------
typedef std::vector<std::string> Step;      // tokens; [0] is the op name

struct Program {
    std::string property;
    CtSpec ct;
    std::vector<std::vector<int>> domains;   // sizes for var 1..K
    std::vector<FSpec> forests;
    std::vector<Step> steps;
    std::string text() const;
    bool parse(const std::string& txt, std::string& err);
    uint64_t hash() const;
};

// labels/counters collected while a program runs
struct Labels {
    std::map<std::string, long> c;
    void add(const std::string& k, long n = 1) { c[k] += n; }
    long get(const std::string& k) const { auto it = c.find(k); return it == c.end() ? 0 : it->second; }
    bool has(const std::string& k) const { return get(k) > 0; }
};

// which oracles run
struct Checks {
    bool o1 = true;          // model evaluate after each producing step
    bool o2 = true;          // independent expansion
    bool audit = false;      // O3 after every step
    bool recount = false;    // O4 after every step
    bool cachecount = false; // O5 after every step
    bool canon = false;      // pairwise == <=> same table after every step
    bool operands = true;    // operands unchanged after operations
    bool allslots = false;   // re-evaluate every live slot after every step (C06/C07/C13)
    bool undercount = false; // no node may be under-counted (after rejected calls, C16)
    int auditEvery = 1;
    bool fingerprint = false; // record a handle-free canonical form of every produced edge (C12)
};
Checks checksFor(const std::string& property);

struct RunResult {
    bool ok = true;
    Failure fail;
    int failStep = -1;
    Labels labels;
    bool nontrivial = false;
    std::vector<uint64_t> fingerprint;
    int reachCalls = 0;
};

// execute a program in a fresh library session
RunResult runProgram(const Program& P, const Checks& C);
// property-aware execution: C12 runs the program once per policy combination and compares
RunResult runCase(const Program& P, int tier);

// generators (gen_*.cc): build a program for a property
Program generate(const std::string& property, Rand& R, int tier);
// non-triviality rule per property, evaluated on the labels of a finished run
bool nontrivialRule(const std::string& property, const Labels& L);
const char* ruleText(const std::string& property);

// standalone checks that are not programs (C18, C19)
int runMemoryManagerCase(Rand& R, int tier, Labels& L, Failure& fail, std::string& desc);
int replayMemoryManager(const std::string& text, Failure& fail);
int runCodecCampaign(int tier, unsigned worker, unsigned workers, uint64_t seed, Labels& L, Failure& fl, std::string& desc);
int replayCodec(const std::string& text, Failure& fl);

} // namespace mv
#endif
