// interp_life.cc -- misuse (C16) and lifecycle (C17) steps
#include "interp.h"
#include <algorithm>
#include <cmath>

using namespace MEDDLY;

namespace mv {

static int toInt(const std::string& s) { return atoi(s.c_str()); }

namespace {

// run `call`; it must raise MEDDLY::error with a code in `accept` (empty = any MEDDLY::error)
bool mustThrow(Interp& I, const std::string& what, const std::vector<int>& accept, const std::function<void()>& call)
{
    bool threw = false; int code = -1; std::string name;
    try { call(); }
    catch (MEDDLY::error& e) { threw = true; code = int(e.getCode()); name = e.getName(); }
    catch (std::exception& e) { return I.fail("C16.foreign-exception", what + ": raised a non-MEDDLY exception: " + e.what()); }
    catch (const char* m) { return I.fail("C16.foreign-exception", what + ": raised a C string: " + std::string(m)); }
    if (!threw) return I.fail("C16.not-rejected", what + ": the call returned normally");
    if (!accept.empty() && std::find(accept.begin(), accept.end(), code) == accept.end())
        return I.fail("C16.wrong-code", what + ": raised " + name + ", which is not the documented code for this misuse");
    I.R.labels.add("misuse_rejected");
    return true;
}

const std::vector<int> MISMATCH = {int(error::DOMAIN_MISMATCH), int(error::TYPE_MISMATCH), int(error::NOT_IMPLEMENTED), int(error::FOREST_MISMATCH)};

// after an error the library must be intact: no node may be under-counted
bool afterMisuse(Interp& I)
{
    Failure fl;
    for (size_t f = 0; f < I.W.F.size(); f++) {
        if (!I.W.F[f]) continue;
        if (!oracleRecount(I.W, int(f), fl, false)) return I.fail(fl.tag, "after a rejected call: " + fl.msg);
    }
    return true;
}

// do the live forests among `fs` (same domain assumed by the caller where it matters) disagree on the variable order?
// Then a call has a second, different reason to be rejected (INVALID_OPERATION) and the kinds that assert one
// specific family of codes skip themselves; `misuse order` / `orderun` assert that case on its own.
bool ordersDiffer(Interp& I, const std::vector<int>& fs)
{
    std::map<int, std::vector<int>> byDom;
    for (int f : fs) {
        if (!I.okForest(f)) continue;
        std::vector<int> o(size_t(I.W.domOf(f).K()) + 1);
        I.W.F[size_t(f)]->getVariableOrder(o.data());
        auto it = byDom.find(I.W.fs[size_t(f)].dom);
        if (it == byDom.end()) byDom[I.W.fs[size_t(f)].dom] = o;
        else if (it->second != o) return true;
    }
    return false;
}

long liveNodes(Interp& I)
{
    long n = 0;
    for (auto F : I.W.F) if (F) n += F->getCurrentNumNodes();
    return n;
}

} // namespace

// misuse KIND ...
static bool doMisuse(Interp& I, const Step& s)
{
    World& W = I.W;
    if (s.size() < 2) { I.skip("misuse-short"); return true; }
    const std::string& kind = s[1];
    if (liveNodes(I) >= 10) I.R.labels.add("misuse_with_10_live_nodes");

    if (kind == "binop") {
        // misuse binop OP a b fc : operands / result forest that do not fit the operation
        if (s.size() < 6) { I.skip("misuse-short"); return true; }
        const std::string& op = s[2];
        const int a = toInt(s[3]), b = toInt(s[4]), fc = toInt(s[5]);
        if (!I.liveSlot(a) || !I.liveSlot(b) || !I.okForest(fc)) { I.skip("misuse-operands"); return true; }
        const FSpec &SA = W.fs[size_t(W.slots[size_t(a)].f)], &SB = W.fs[size_t(W.slots[size_t(b)].f)], &SC = W.fs[size_t(fc)];
        binary_factory* BF = binaryFactory(op);
        if (!BF) { I.skip("misuse-op"); return true; }
        // it is a misuse only if something really mismatches
        const bool xdom = SA.dom != SC.dom || SB.dom != SC.dom;
        const bool isSet = op == "UNION" || op == "INTERSECTION" || op == "DIFFERENCE";
        const bool isCross = op == "CROSS";
        bool mismatch = xdom;
        if (isCross) mismatch = mismatch || SA.rel || SB.rel || !SC.rel;
        else mismatch = mismatch || SA.rel != SC.rel || SB.rel != SC.rel;
        const bool isArith = op == "PLUS" || op == "MINUS" || op == "MULTIPLY" || op == "DIVIDE" || op == "MODULO" || op == "MAXIMUM" || op == "MINIMUM";
        // (arithmetic on three boolean forests is not offered by the documentation either, but it is
        // not a *mismatch*; the statement lists mismatches, so it is not asserted)
        if (isArith) mismatch = mismatch || SA.label != SC.label || SB.label != SC.label || SA.range != SC.range || SB.range != SC.range;
        if (isSet) mismatch = mismatch || SA.label != 'M' || SB.label != 'M' || SC.label != 'M';
        if (!mismatch) { I.skip("misuse-not-a-mismatch"); return true; }
        if (ordersDiffer(I, {W.slots[size_t(a)].f, W.slots[size_t(b)].f, fc})) { I.skip("misuse-order-differs-too"); return true; }
        I.R.labels.add(xdom ? "misuse.cross_domain" : "misuse.type_mismatch");
        dd_edge c(W.F[size_t(fc)]);
        if (!mustThrow(I, "apply(" + op + ") on mismatched operands", MISMATCH, [&]() { BF->apply(*W.slots[size_t(a)].e, *W.slots[size_t(b)].e, c); })) return false;
        return afterMisuse(I);
    }
    if (kind == "unop") {
        // misuse unop OP a fc
        if (s.size() < 5) { I.skip("misuse-short"); return true; }
        const std::string& op = s[2];
        const int a = toInt(s[3]), fc = toInt(s[4]);
        if (!I.liveSlot(a) || !I.okForest(fc)) { I.skip("misuse-operands"); return true; }
        const FSpec &SA = W.fs[size_t(W.slots[size_t(a)].f)], &SC = W.fs[size_t(fc)];
        unary_factory* UFc = unaryFactory(op);
        if (!UFc) { I.skip("misuse-op"); return true; }
        bool mismatch = SA.dom != SC.dom || SA.rel != SC.rel;
        if (op == "COMPLEMENT") mismatch = mismatch || SA.range != 'B' || SC.range != 'B';
        if (op == "DIST_INC") mismatch = mismatch || SA.range != 'I' || SC.range != 'I' || SA.label != 'M' || SC.label != 'M';
        if (!mismatch) { I.skip("misuse-not-a-mismatch"); return true; }
        if (ordersDiffer(I, {W.slots[size_t(a)].f, fc})) { I.skip("misuse-order-differs-too"); return true; }
        I.R.labels.add(SA.dom != SC.dom ? "misuse.cross_domain" : "misuse.type_mismatch");
        dd_edge c(W.F[size_t(fc)]);
        if (!mustThrow(I, "apply(" + op + ") on mismatched operands", MISMATCH, [&]() { UFc->apply(*W.slots[size_t(a)].e, c); })) return false;
        return afterMisuse(I);
    }
    if (kind == "wrongresult" || kind == "wrongoperand") {
        // misuse wrongresult OP a b fother : the operation is built for a's/b's forests and the result forest of
        // a valid combination, but compute() gets a result (or first operand) edge attached to forest fother
        if (s.size() < 6) { I.skip("misuse-short"); return true; }
        const std::string& op = s[2];
        const int a = toInt(s[3]), b = toInt(s[4]), fo = toInt(s[5]);
        if (!I.liveSlot(a) || !I.liveSlot(b) || !I.okForest(fo)) { I.skip("misuse-operands"); return true; }
        const int fa = W.slots[size_t(a)].f, fb = W.slots[size_t(b)].f;
        if (fo == fa) { I.skip("misuse-same-forest"); return true; }
        if (ordersDiffer(I, {fa, fb})) { I.skip("misuse-order-differs-too"); return true; }
        binary_factory* BF = binaryFactory(op);
        if (!BF) { I.skip("misuse-op"); return true; }
        binary_operation* bop = nullptr;
        try { bop = BF->build(W.F[size_t(fa)], W.F[size_t(fb)], W.F[size_t(fa)]); } catch (MEDDLY::error&) { bop = nullptr; }
        if (!bop) { I.skip("misuse-unsupported"); return true; }
        I.R.labels.add("misuse.wrong_forest");
        if (kind == "wrongresult") {
            dd_edge c(W.F[size_t(fo)]);
            if (!mustThrow(I, op + "->compute() with a result edge attached to another forest", {int(error::FOREST_MISMATCH)},
                           [&]() { bop->compute(*W.slots[size_t(a)].e, *W.slots[size_t(b)].e, c); })) return false;
        } else {
            int other = -1;
            for (size_t sl = 0; sl < W.slots.size(); sl++) if (I.liveSlot(int(sl)) && W.slots[sl].f == fo) { other = int(sl); break; }
            if (other < 0) { I.skip("misuse-no-foreign-edge"); return true; }
            dd_edge c(W.F[size_t(fa)]);
            if (!mustThrow(I, op + "->compute() with an operand attached to another forest", {int(error::FOREST_MISMATCH)},
                           [&]() { bop->compute(*W.slots[size_t(other)].e, *W.slots[size_t(b)].e, c); })) return false;
        }
        return afterMisuse(I);
    }
    if (kind == "overflow") {
        // misuse overflow f : a constant / minterm value that does not fit a terminal
        if (s.size() < 3) { I.skip("misuse-short"); return true; }
        const int f = toInt(s[2]);
        if (!I.okForest(f)) { I.skip("misuse-forest"); return true; }
        const FSpec& S = W.fs[size_t(f)];
        if (S.label != 'M' || S.range != 'I') { I.skip("misuse-overflow-kind"); return true; }
        const long big = (s.size() > 3 && s[3] == "neg") ? -1073741825L : 1073741824L;
        I.R.labels.add("misuse.value_overflow");
        dd_edge c(W.F[size_t(f)]);
        if (!mustThrow(I, "createConstant with a value outside the terminal range", {int(error::VALUE_OVERFLOW)}, [&]() { W.F[size_t(f)]->createConstant(rangeval(big), c); })) return false;
        minterm m(W.F[size_t(f)]);
        const int K = W.domOf(f).K();
        for (int k = 1; k <= K; k++) { if (S.rel) m.setVars(unsigned(k), 0, 0); else m.setVar(unsigned(k), 0); }
        m.setValue(rangeval(big));
        if (!mustThrow(I, "minterm::buildFunction with a value outside the terminal range", {int(error::VALUE_OVERFLOW)}, [&]() { m.buildFunction(rangeval(0L), c); })) return false;
        return afterMisuse(I);
    }
    if (kind == "badvar") {
        // misuse badvar f : createEdgeForVar with an invalid variable / primed on a set
        if (s.size() < 3) { I.skip("misuse-short"); return true; }
        const int f = toInt(s[2]);
        if (!I.okForest(f)) { I.skip("misuse-forest"); return true; }
        const FSpec& S = W.fs[size_t(f)];
        if (S.label == 'X') { I.skip("misuse-indexset"); return true; }
        const int K = W.domOf(f).K();
        I.R.labels.add("misuse.bad_variable");
        dd_edge c(W.F[size_t(f)]);
        if (!mustThrow(I, "createEdgeForVar with variable K+1", {int(error::INVALID_VARIABLE)}, [&]() { W.F[size_t(f)]->createEdgeForVar(K + 1, false, c); })) return false;
        if (!mustThrow(I, "createEdgeForVar with variable -1", {int(error::INVALID_VARIABLE)}, [&]() { W.F[size_t(f)]->createEdgeForVar(-1, false, c); })) return false;
        if (!S.rel && !mustThrow(I, "createEdgeForVar primed in a set forest", {int(error::INVALID_ASSIGNMENT)}, [&]() { W.F[size_t(f)]->createEdgeForVar(1, true, c); })) return false;
        return afterMisuse(I);
    }
    if (kind == "wrongminterm") {
        // misuse wrongminterm slot fother : evaluate with a minterm of another domain or shape
        if (s.size() < 4) { I.skip("misuse-short"); return true; }
        const int a = toInt(s[2]), fo = toInt(s[3]);
        if (!I.liveSlot(a) || !I.okForest(fo)) { I.skip("misuse-operands"); return true; }
        const FSpec &SA = W.fs[size_t(W.slots[size_t(a)].f)], &SO = W.fs[size_t(fo)];
        if (SA.dom == SO.dom && SA.rel == SO.rel) { I.skip("misuse-not-a-mismatch"); return true; }
        I.R.labels.add("misuse.wrong_minterm");
        minterm m(W.F[size_t(fo)]);
        const int K = W.domOf(fo).K();
        for (int k = 1; k <= K; k++) { if (SO.rel) m.setVars(unsigned(k), 0, 0); else m.setVar(unsigned(k), 0); }
        rangeval rv;
        if (!mustThrow(I, "evaluate with a minterm of another domain / shape", {int(error::DOMAIN_MISMATCH)}, [&]() { W.slots[size_t(a)].e->evaluate(m, rv); })) return false;
        return afterMisuse(I);
    }
    if (kind == "getelem") {
        // misuse getelem slot : getElement on an edge that is not an index set
        if (s.size() < 3) { I.skip("misuse-short"); return true; }
        const int a = toInt(s[2]);
        if (!I.liveSlot(a)) { I.skip("misuse-operands"); return true; }
        const int f = W.slots[size_t(a)].f;
        if (W.fs[size_t(f)].label == 'X') { I.skip("misuse-not-a-mismatch"); return true; }
        I.R.labels.add("misuse.getelement_nonindex");
        minterm m(W.F[size_t(f)]);
        if (!mustThrow(I, "getElement on a non-index-set edge", {int(error::INVALID_OPERATION)}, [&]() { W.slots[size_t(a)].e->getElement(0, m); })) return false;
        return afterMisuse(I);
    }
    if (kind == "order") {
        // misuse order OP a b : operands whose forests have different variable orders
        if (s.size() < 5) { I.skip("misuse-short"); return true; }
        const std::string& op = s[2];
        const int a = toInt(s[3]), b = toInt(s[4]);
        if (!I.liveSlot(a) || !I.liveSlot(b)) { I.skip("misuse-operands"); return true; }
        const int fa = W.slots[size_t(a)].f, fb = W.slots[size_t(b)].f;
        // optional result forest (default: the first operand's); the misuse is any of the three orders differing
        const int fc = s.size() > 5 ? toInt(s[5]) : fa;
        if (!I.okForest(fc)) { I.skip("misuse-operands"); return true; }
        if (W.fs[size_t(fa)].dom != W.fs[size_t(fb)].dom || W.fs[size_t(fa)].dom != W.fs[size_t(fc)].dom) { I.skip("misuse-domain"); return true; }
        std::vector<int> oa(size_t(W.domOf(fa).K()) + 1), ob(oa.size()), oc(oa.size());
        W.F[size_t(fa)]->getVariableOrder(oa.data()); W.F[size_t(fb)]->getVariableOrder(ob.data()); W.F[size_t(fc)]->getVariableOrder(oc.data());
        if (oa == ob && oa == oc) { I.skip("misuse-not-a-mismatch"); return true; }
        binary_factory* BF = binaryFactory(op);
        if (!BF) { I.skip("misuse-op"); return true; }
        I.R.labels.add("misuse.variable_order");
        I.R.labels.add(oa != ob ? "misuse.order_operands_differ" : "misuse.order_result_differs");
        dd_edge c(W.F[size_t(fc)]);
        if (!mustThrow(I, "apply(" + op + ") across forests with different variable orders", {int(error::INVALID_OPERATION), int(error::TYPE_MISMATCH), int(error::NOT_IMPLEMENTED)},
                       [&]() { BF->apply(*W.slots[size_t(a)].e, *W.slots[size_t(b)].e, c); })) return false;
        return afterMisuse(I);
    }
    if (kind == "doubleinit") {
        // misuse doubleinit : MEDDLY::initialize() while the library is running; everything must stay usable
        // (the steps that follow keep operating with the configured compute-table style)
        I.R.labels.add("misuse.double_initialize");
        if (!mustThrow(I, "MEDDLY::initialize() on a running library", {int(error::ALREADY_INITIALIZED)}, [&]() { MEDDLY::initialize(); })) return false;
        return afterMisuse(I);
    }
    if (kind == "orderun") {
        // misuse orderun OP a fc : unary operation into a forest with a different variable order
        if (s.size() < 5) { I.skip("misuse-short"); return true; }
        const std::string& op = s[2];
        const int a = toInt(s[3]), fc = toInt(s[4]);
        if (!I.liveSlot(a) || !I.okForest(fc)) { I.skip("misuse-operands"); return true; }
        const int fa = W.slots[size_t(a)].f;
        if (W.fs[size_t(fa)].dom != W.fs[size_t(fc)].dom) { I.skip("misuse-domain"); return true; }
        std::vector<int> oa(size_t(W.domOf(fa).K()) + 1), oc(oa.size());
        W.F[size_t(fa)]->getVariableOrder(oa.data()); W.F[size_t(fc)]->getVariableOrder(oc.data());
        if (oa == oc) { I.skip("misuse-not-a-mismatch"); return true; }
        unary_factory* UFc = unaryFactory(op);
        if (!UFc) { I.skip("misuse-op"); return true; }
        I.R.labels.add("misuse.variable_order");
        I.R.labels.add("misuse.order_unary");
        dd_edge c(W.F[size_t(fc)]);
        if (!mustThrow(I, "apply(" + op + ") into a forest with a different variable order", {int(error::INVALID_OPERATION), int(error::TYPE_MISMATCH), int(error::NOT_IMPLEMENTED)},
                       [&]() { UFc->apply(*W.slots[size_t(a)].e, c); })) return false;
        return afterMisuse(I);
    }
    if (kind == "usedead") {
        // misuse usedead z other : an edge whose forest was destroyed, as operand, result, in evaluate and iteration
        if (s.size() < 4) { I.skip("misuse-short"); return true; }
        const int z = toInt(s[2]), o = toInt(s[3]);
        if (z < 0 || z >= int(W.slots.size()) || !W.slots[size_t(z)].e || W.slots[size_t(z)].f < 0 || W.F[size_t(W.slots[size_t(z)].f)]) { I.skip("misuse-not-dead"); return true; }
        dd_edge& Z = *W.slots[size_t(z)].e;
        I.R.labels.add("misuse.dead_edge");
        if (Z.getForest() != nullptr) return I.fail("C17.detached-edge", "an edge of a destroyed forest still reports a forest");
        if (Z.getNode() != 0) return I.fail("C17.detached-edge", "an edge of a destroyed forest still holds a node");
        if (I.liveSlot(o)) {
            dd_edge& O = *W.slots[size_t(o)].e;
            const int fo = W.slots[size_t(o)].f;
            const FSpec& SO = W.fs[size_t(fo)];
            binary_factory& BF = SO.range == 'B' ? UNION() : PLUS();
            dd_edge c(W.F[size_t(fo)]);
            if (!mustThrow(I, "binary operation with a detached first operand", {}, [&]() { BF.apply(Z, O, c); })) return false;
            if (!mustThrow(I, "binary operation with a detached second operand", {}, [&]() { BF.apply(O, Z, c); })) return false;
            if (!mustThrow(I, "binary operation with a detached result edge", {}, [&]() { BF.apply(O, O, Z); })) return false;
            if (!mustThrow(I, "COPY from a detached edge", {}, [&]() { COPY().apply(Z, c); })) return false;
            minterm m(W.F[size_t(fo)]);
            const int K = W.domOf(fo).K();
            for (int k = 1; k <= K; k++) { if (SO.rel) m.setVars(unsigned(k), 0, 0); else m.setVar(unsigned(k), 0); }
            rangeval rv;
            if (!mustThrow(I, "evaluate on a detached edge", {int(error::FOREST_MISMATCH)}, [&]() { Z.evaluate(m, rv); })) return false;
        }
        // a copy of a detached edge is detached too; cardinality of a detached edge is an error
        {
            dd_edge cp(Z);
            if (cp.getForest() != nullptr || cp.getNode() != 0) return I.fail("C17.detached-edge", "copy of a detached edge is not detached");
            long card = 0;
            if (!mustThrow(I, "CARDINALITY of a detached edge", {}, [&]() { apply(CARDINALITY, Z, card); })) return false;
        }
        return afterMisuse(I);
    }
    I.skip("misuse-unknown");
    return true;
}

// ---------------------------------------------------------------------------------------
// lifecycle
// ---------------------------------------------------------------------------------------
static bool checkDetached(Interp& I, int f)
{
    World& W = I.W;
    for (size_t sl = 0; sl < W.slots.size(); sl++) {
        Slot& S = W.slots[sl];
        if (!S.e || S.f != f) continue;
        if (S.e->getForest() != nullptr) return I.fail("C17.detached-edge", "edge in slot " + std::to_string(sl) + " still reports a forest after the forest was destroyed");
        if (S.e->getNode() != 0) return I.fail("C17.detached-edge", "edge in slot " + std::to_string(sl) + " still holds a node after its forest was destroyed");
        I.R.labels.add("edge_detached_by_destroy");
    }
    return true;
}

static bool doDestroyForest(Interp& I, const Step& s)
{
    World& W = I.W;
    if (s.size() < 2) { I.skip("destroyf-short"); return true; }
    const int f = toInt(s[1]);
    if (!I.okForest(f)) { I.skip("destroyf-forest"); return true; }
    const unsigned fid = W.F[size_t(f)]->FID();
    // does another forest share an operation with it?
    bool shared = I.R.labels.has("cross_forest_op");
    forest* F = W.F[size_t(f)];
    try { forest::destroy(F); }
    catch (MEDDLY::error& e) { return I.fail("exception", std::string("forest::destroy threw ") + e.getName()); }
    W.F[size_t(f)] = nullptr;
    if (F != nullptr) return I.fail("C17.destroy", "forest::destroy did not null the pointer");
    if (forest::getForestWithID(fid) != nullptr) return I.fail("C17.fid", "getForestWithID still returns a destroyed forest");
    I.destroyedFids.push_back(fid);
    I.R.labels.add("forest_destroyed");
    if (shared) I.R.labels.add("forest_destroyed_after_cross_forest_ops");
    return checkDetached(I, f);
}

static bool doDestroyDomain(Interp& I, const Step& s)
{
    World& W = I.W;
    if (s.size() < 2) { I.skip("destroyd-short"); return true; }
    const int d = toInt(s[1]);
    if (d < 0 || d >= int(W.doms.size()) || !W.doms[size_t(d)].d) { I.skip("destroyd-domain"); return true; }
    std::vector<unsigned> fids;
    for (size_t f = 0; f < W.F.size(); f++) if (W.F[f] && W.fs[f].dom == d) fids.push_back(W.F[f]->FID());
    try { domain::destroy(W.doms[size_t(d)].d); }
    catch (MEDDLY::error& e) { return I.fail("exception", std::string("domain::destroy threw ") + e.getName()); }
    for (size_t f = 0; f < W.F.size(); f++) if (W.F[f] && W.fs[f].dom == d) { W.F[f] = nullptr; if (!checkDetached(I, int(f))) return false; }
    for (unsigned fid : fids) { if (forest::getForestWithID(fid) != nullptr) return I.fail("C17.fid", "getForestWithID still returns a forest of a destroyed domain"); I.destroyedFids.push_back(fid); }
    I.R.labels.add("domain_destroyed");
    return true;
}

static bool doNewForest(Interp& I, const Step& s)
{
    // newforest <index into the program's forest list>: create another forest with that spec; FIDs never repeat
    World& W = I.W;
    if (s.size() < 2) { I.skip("newforest-short"); return true; }
    const int t = toInt(s[1]);
    if (t < 0 || t >= int(I.P.forests.size())) { I.skip("newforest-spec"); return true; }
    FSpec spec = I.P.forests[size_t(t)];
    if (spec.dom >= int(W.doms.size()) || !W.doms[size_t(spec.dom)].d) { I.skip("newforest-domain"); return true; }
    unsigned maxBefore = forest::MaxFID();
    int f = W.addForest(spec);
    if (f < 0) { I.R.labels.add("forest_refused"); return true; }
    const unsigned fid = W.F[size_t(f)]->FID();
    if (fid <= maxBefore) return I.fail("C17.fid", "a new forest got FID " + std::to_string(fid) + ", not larger than every earlier FID (" + std::to_string(maxBefore) + ")");
    if (std::find(I.destroyedFids.begin(), I.destroyedFids.end(), fid) != I.destroyedFids.end()) return I.fail("C17.fid", "a forest identifier was reused");
    if (forest::getForestWithID(fid) != W.F[size_t(f)]) return I.fail("C17.fid", "getForestWithID does not return the new forest");
    I.R.labels.add("forest_created_late");
    return true;
}

static bool doReinit(Interp& I, const Step& s)
{
    // reinit style stale maxsize compress : cleanup() and initialize() again; everything held becomes inert
    World& W = I.W;
    CtSpec c;
    if (s.size() >= 5) { c.style = toInt(s[1]) & 3; c.stale = toInt(s[2]) % 3; c.maxsize = atol(s[3].c_str()); c.compress = toInt(s[4]) & 1; if (c.maxsize < 0) c.maxsize = 0; if (c.stale < 0) c.stale = 0; }
    // double initialize / double cleanup are documented errors
    if (!mustThrow(I, "initialize() while the library is running", {int(error::ALREADY_INITIALIZED)}, []() { MEDDLY::initialize(); })) return false;
    try { MEDDLY::cleanup(); }
    catch (MEDDLY::error& e) { return I.fail("exception", std::string("cleanup threw ") + e.getName()); }
    if (!mustThrow(I, "cleanup() after cleanup()", {int(error::UNINITIALIZED)}, []() { MEDDLY::cleanup(); })) return false;
    // edges held across cleanup are detached
    for (size_t f = 0; f < W.F.size(); f++) if (W.F[f]) { W.F[f] = nullptr; if (!checkDetached(I, int(f))) return false; }
    for (auto& D : W.doms) D.d = nullptr;
    // a few of the detached edges stay alive across the next initialisation ("ghosts"): they must remain
    // inert although the new forests get the same identifiers; the others are destroyed now
    std::vector<dd_edge*> ghosts;
    for (size_t sl = 0; sl < W.slots.size(); sl++) {
        if (!W.slots[sl].e) continue;
        if (ghosts.size() < 4) { ghosts.push_back(W.slots[sl].e); W.slots[sl].e = nullptr; W.slots[sl].f = -1; }
        else W.release(int(sl));     // destructors of detached edges must be safe
    }
    W.inited = false;
    W.F.clear(); W.fs.clear(); W.doms.clear();
    I.destroyedFids.clear();
    I.sigs.clear();
    // a fresh session: same domains and forests as the program header
    W.start(c);
    for (auto& d : I.P.domains) W.addDomain(d);
    for (auto& f : I.P.forests) W.addForest(f);
    I.R.labels.add("reinitialized");
    bool ghostBad = false;
    for (dd_edge* g : ghosts) {
        if (g->getForest() != nullptr || g->getNode() != 0) ghostBad = true;
        dd_edge cp(*g);
        if (cp.getForest() != nullptr || cp.getNode() != 0) ghostBad = true;
    }
    if (!ghosts.empty()) I.R.labels.add("edge_kept_across_reinitialisation");
    for (dd_edge* g : ghosts) delete g;
    if (ghostBad) return I.fail("C17.detached-edge", "an edge kept across cleanup() and initialize() reports a forest of the new initialisation");
    return true;
}

bool doLifeFamily(Interp& I, const Step& s, bool& handled)
{
    handled = true;
    const std::string& op = s[0];
    if (op == "misuse") return doMisuse(I, s);
    if (op == "destroyf") return doDestroyForest(I, s);
    if (op == "destroyd") return doDestroyDomain(I, s);
    if (op == "newforest") return doNewForest(I, s);
    if (op == "reinit") return doReinit(I, s);
    handled = false;
    return true;
}

} // namespace mv
