// interp.cc -- program interpreter: core steps
#include "interp.h"
#include <algorithm>
#include <cmath>
#include <array>

using namespace MEDDLY;

namespace mv {

static int toInt(const std::string& s) { return atoi(s.c_str()); }

Checks checksFor(const std::string& p)
{
    Checks c;
    if (p == "C01") { c.canon = true; c.audit = false; }
    else if (p == "C08" || p == "C20") { c.canon = true; }
    else if (p == "C09") { c.canon = true; c.audit = true; }     // images and products must give canonical, rule-abiding results too
    else if (p == "C02") { c.audit = true; }
    else if (p == "C06") { c.recount = true; c.allslots = true; }
    else if (p == "C07") { c.cachecount = true; c.allslots = true; }
    else if (p == "C12") { c.audit = true; }
    else if (p == "C13") { c.audit = true; c.allslots = true; }
    else if (p == "C14") { c.audit = true; c.recount = true; }
    else if (p == "C16") { c.allslots = true; c.audit = true; c.undercount = true; }
    else if (p == "C17") { c.allslots = true; c.audit = true; c.recount = true; c.cachecount = true; }
    return c;
}

// ---------------------------------------------------------------------------------------

bool Interp::checkEdge(int f, const dd_edge& e, const Table& T, const char* what)
{
    Failure fl;
    if (C.o1) {
        long un = 0;
        if (!oracleEval(W, f, e, T, fl, &un)) return fail(fl.tag, std::string(what) + ": " + fl.msg);
        if (un) R.labels.add("unspec_points", un);
    }
    if (C.o2) {
        if (!oracleExpand(W, f, e, T, fl)) return fail(fl.tag, std::string(what) + ": " + fl.msg);
    }
    return true;
}

bool Interp::produce(int dst, int f, dd_edge* e, const Table& T, const char* what)
{
    if (!checkEdge(f, *e, T, what)) { delete e; return false; }
    Table T2 = T;
    {
        // "any negative value" (unreachable in MT-int distance functions): continue with the value
        // the library chose
        bool anyNeg = false;
        for (auto& v : T2) if (v.t == VNEG) { anyNeg = true; break; }
        if (anyNeg) {
            Table got; Failure fl;
            if (expandEdge(W, f, *e, got, fl))
                for (size_t i = 0; i < T2.size(); i++) if (T2[i].t == VNEG) T2[i] = (got[i].t == VI && got[i].i < 0) ? got[i] : Val::Un();
        }
    }
    if (W.fs[f].range == 'R') {
        // real values: the library rounds (terminal precision 1e-5, float mantissa), so after the
        // result has been checked against the model within tolerance, the model continues from
        // the library's value at each point -- otherwise rounding drift accumulates over chains
        Table got; Failure fl;
        if (expandEdge(W, f, *e, got, fl))
            for (size_t i = 0; i < T2.size(); i++) if (!T2[i].isUn() && got[i].t == VR && sameVal(got[i], T2[i])) T2[i] = got[i];
    }
    // classify the function
    bool constant = true;
    for (size_t i = 1; i < T.size(); i++) if (!exactVal(T[i], T[0])) { constant = false; break; }
    if (!constant) R.labels.add("nonconstant_result");
    W.setSlot(dst, f, e, T2);
    // (EV* forests: the library compares float edge values with a 1e-6 tolerance, so whether two nearly
    // equal nodes are one node or two depends on what the deletion policy has reclaimed; their structure
    // and node counts are not comparable across policies -- the values are, and O1 checks those)
    // Results computed *from* EV* operands (comparisons into a boolean forest, copies) inherit the
    // problem at points where two values are nearly equal, so a program with an EV* forest is compared
    // across policies by its values only (see runCase).
    if (C.fingerprint) {
        std::string cf = canonicalForm(W, f, *e);
        uint64_t h = 1469598103934665603ULL;
        for (unsigned char c : cf) { h ^= c; h *= 1099511628211ULL; }
        R.fingerprint.push_back(h);
        R.fingerprint.push_back(uint64_t(e->getNodeCount()));
    }
    return true;
}

bool Interp::auditAll()
{
    Failure fl;
    for (int f = 0; f < int(W.F.size()); f++) {
        if (!W.F[f]) continue;
        if (C.audit) {
            AuditStats st;
            if (!oracleAudit(W, f, fl, &st)) return fail(fl.tag, fl.msg);
            if (st.nodes >= 20) R.labels.add("audit_20nodes");
            if (st.sparse && st.full) R.labels.add("both_storage_forms");
            R.labels.add("audited_nodes", st.nodes);
        }
        if (C.recount) {
            if (!oracleRecount(W, f, fl, true)) return fail(fl.tag, fl.msg);
        }
        if (C.undercount) {
            if (!oracleRecount(W, f, fl, false)) return fail(fl.tag, fl.msg);
        }
        if (C.cachecount) {
            if (!oracleCacheCount(W, f, fl)) return fail(fl.tag, fl.msg);
        }
    }
    return true;
}

void Interp::noteForestLabels()
{
    // node deaths and handle reuse, detected from outside
    if (sigs.size() < W.F.size()) sigs.resize(W.F.size());
    for (int f = 0; f < int(W.F.size()); f++) {
        forest* F = W.F[f];
        if (!F) continue;
        auto& sg = sigs[size_t(f)];
        const node_handle last = F->getLastNode();
        for (auto it = sg.begin(); it != sg.end();) {
            if (it->first > last || !F->isActiveNode(node_handle(it->first))) { R.labels.add("node_death"); it->second = 0; }
            ++it;
        }
        for (node_handle p = 1; p <= last; p++) {
            if (!F->isActiveNode(p)) continue;
            uint64_t h = (uint64_t(F->hashNode(p)) << 8) ^ uint64_t(uint32_t(F->getNodeLevel(p)));
            auto it = sg.find(p);
            if (h == 0) h = 1;
            if (it == sg.end()) sg[p] = h;
            else if (it->second == 0) { R.labels.add("handle_reuse"); it->second = h; }      // died earlier, live again
            else if (it->second != h) { R.labels.add("handle_reuse"); R.labels.add("node_death"); it->second = h; }
        }
    }
}

bool Interp::afterStep(int index)
{
    (void) index;
    if (C.allslots) {
        for (size_t s = 0; s < W.slots.size(); s++) {
            if (!liveSlot(int(s))) continue;
            Slot& S = W.slots[s];
            if (!checkEdge(S.f, *S.e, S.T, "held edge")) return false;
        }
    }
    if (C.canon) {
        for (size_t a = 0; a < W.slots.size(); a++) {
            if (!liveSlot(int(a))) continue;
            for (size_t b = a + 1; b < W.slots.size(); b++) {
                if (!liveSlot(int(b)) || W.slots[a].f != W.slots[b].f) continue;
                const Table &TA = W.slots[a].T, &TB = W.slots[b].T;
                bool same = true, comparable = true;
                for (size_t i = 0; i < TA.size(); i++) {
                    if (TA[i].isUn() || TB[i].isUn()) { comparable = false; break; }
                    if (!exactVal(TA[i], TB[i])) { same = false; }
                }
                if (!comparable) { R.labels.add("canon_incomparable"); continue; }
                const FSpec& S = W.fs[W.slots[a].f];
                if (!same && (S.range == 'R')) {
                    // real tables: only exact grid values are compared for canonicity
                    bool close = true;
                    for (size_t i = 0; i < TA.size(); i++) if (!sameVal(TA[i], TB[i])) { close = false; break; }
                    if (close) { R.labels.add("canon_incomparable"); continue; }
                }
                bool eq = (*W.slots[a].e == *W.slots[b].e);
                if (same) R.labels.add("canon_equal_pairs"); else R.labels.add("canon_unequal_pairs");
                if (eq != same) {
                    std::ostringstream o;
                    o << "slots " << a << " and " << b << " in forest " << W.slots[a].f << ": tables "
                      << (same ? "equal" : "differ") << " but edges compare " << (eq ? "equal" : "unequal");
                    return fail(same ? "C01.same-function-different-edge" : "C01.different-function-same-edge", o.str());
                }
            }
        }
    }
    if (C.audit || C.recount || C.cachecount || C.undercount) {
        if (!auditAll()) return false;
    }
    noteForestLabels();
    return true;
}

// ---------------------------------------------------------------------------------------
// construction
// ---------------------------------------------------------------------------------------

bool Interp::doMinterm(const Step& s)
{
    // mt <tokens...> <value>; shape is checked when the minterm is used
    PendingMinterm pm;
    if (s.size() < 3) { skip("mt-short"); return true; }
    pm.valtok = s.back();
    for (size_t i = 1; i + 1 < s.size(); i++) pm.from.push_back(toInt(s[i]));
    pending.push_back(pm);
    return true;
}

// turn the raw token list of a pending minterm into from/to arrays for forest f; false if
// the shape does not fit
static bool shapeMinterm(const World& W, int f, const PendingMinterm& in, std::vector<int>& from,
                         std::vector<int>& to)
{
    const Dom& D = W.domOf(f);
    const int K = D.K();
    const bool rel = W.fs[f].rel;
    if (int(in.from.size()) != (rel ? 2 * K : K)) return false;
    from.assign(K + 1, 0); to.assign(K + 1, 0);
    for (int v = 1; v <= K; v++) {
        int a = in.from[size_t(v - 1)];
        if (a < -1 || a >= D.sizes[v]) return false;
        from[v] = a;
        if (rel) {
            int b = in.from[size_t(K + v - 1)];
            if (b < -2 || b >= D.sizes[v]) return false;
            if (b == -2 && a >= 0) b = a;     // the API normalises (v, DONT_CHANGE) to (v, v)
            to[v] = b;
        }
    }
    return true;
}

static bool matches(const World& W, int f, const std::vector<int>& mf, const std::vector<int>& mt,
                    const std::vector<int>& from, const std::vector<int>& to)
{
    const int K = W.domOf(f).K();
    for (int v = 1; v <= K; v++) {
        if (mf[v] >= 0 && mf[v] != from[v]) return false;
        if (W.fs[f].rel) {
            if (mt[v] >= 0 && mt[v] != to[v]) return false;
            if (mt[v] == -2 && to[v] != from[v]) return false;
        }
    }
    return true;
}

static void setMinterm(const World& W, int f, minterm& m, const std::vector<int>& from,
                       const std::vector<int>& to)
{
    const int K = W.domOf(f).K();
    for (int v = 1; v <= K; v++) {
        int lvl = W.F[f]->getLevelByVar(v);
        if (W.fs[f].rel) m.setVars(unsigned(lvl), from[v], to[v]);
        else m.setVar(unsigned(lvl), from[v]);
    }
}

// value compare for max/min with +inf as top
static int cmpVal(const Val& a, const Val& b)
{
    if (a.isInf() || b.isInf()) return (a.isInf() && b.isInf()) ? 0 : (a.isInf() ? 1 : -1);
    double x = a.num(), y = b.num();
    return x < y ? -1 : (x > y ? 1 : 0);
}

static bool valueAllowed(const FSpec& S, const Val& v)
{
    if (v.isUn()) return false;
    if (v.isInf()) return S.label == 'P';
    if (S.range == 'B') return v.t == VI && (v.i == 0 || v.i == 1);
    if (S.range == 'I') return v.t == VI && std::labs(v.i) <= (1L << 29);
    return v.t == VR && std::fabs(v.d) <= 1e6;
}

bool Interp::doColl(const Step& s)
{
    // coll dst f max|min deflt
    std::vector<PendingMinterm> mts;
    mts.swap(pending);
    if (s.size() < 5) { skip("coll-short"); return true; }
    const int dst = toInt(s[1]), f = toInt(s[2]);
    const bool useMax = s[3] == "max";
    if (dst < 0 || dst > 63 || !okForest(f)) { skip("coll-forest"); return true; }
    const FSpec& S = W.fs[f];
    if (S.label == 'X') { skip("coll-indexset"); return true; }
    Val deflt;
    if (!parseVal(s[4], S.range, deflt) || !valueAllowed(S, deflt)) { skip("coll-deflt"); return true; }
    // shape + value checks
    struct MT { std::vector<int> from, to; Val v; };
    std::vector<MT> list;
    for (auto& pm : mts) {
        MT m;
        if (!shapeMinterm(W, f, pm, m.from, m.to)) { skip("mt-shape"); continue; }
        if (!parseVal(pm.valtok, S.range, m.v) || !valueAllowed(S, m.v)) { skip("mt-value"); continue; }
        // ordering precondition of buildFunctionMax / Min
        int c = cmpVal(deflt, m.v);
        if (useMax ? c > 0 : c < 0) { skip("mt-order"); continue; }
        list.push_back(m);
    }
    // model
    Table T(size_t(W.tableSize(f)), deflt);
    std::vector<int> from, to;
    long overlaps = 0;
    for (long idx = 0; idx < long(T.size()); idx++) {
        W.decode(f, idx, from, to);
        bool any = false; Val best;
        for (auto& m : list) {
            if (!matches(W, f, m.from, m.to, from, to)) continue;
            if (!any) { best = m.v; any = true; }
            else {
                if (!exactVal(best, m.v)) overlaps++;
                int c = cmpVal(m.v, best);
                if (useMax ? c > 0 : c < 0) best = m.v;
            }
        }
        if (any) T[size_t(idx)] = best;
    }
    if (overlaps) R.labels.add("overlap_different_values");
    for (auto& m : list) for (size_t v = 1; v < m.to.size(); v++) if (S.rel && m.to[v] == -2) { R.labels.add("dont_change"); break; }
    if (!exactVal(deflt, W.transparent(f))) R.labels.add("nondefault_default");
    for (auto& m : list) if (exactVal(m.v, W.transparent(f))) R.labels.add("minterm_value_is_transparent");
    R.labels.add("coll_minterms", long(list.size()));

    // library
    forest* F = W.F[f];
    dd_edge* e = new dd_edge(F);
    try {
        minterm_coll mc(unsigned(list.size() ? (list.size() < 4 ? list.size() : list.size() / 2) : 1), F);
        for (auto& m : list) {
            setMinterm(W, f, mc.unused(), m.from, m.to);
            mc.unused().setValue(toRangeval(m.v, S.range));
            mc.pushUnused();
            mc.expandIfNecessary();
        }
        if (useMax) mc.buildFunctionMax(toRangeval(deflt, S.range), *e);
        else mc.buildFunctionMin(toRangeval(deflt, S.range), *e);
        // the collection is an input object: same multiset of minterms afterwards
        if (mc.size() != list.size()) { delete e; return fail("C03.collection-changed", "collection size changed by buildFunction"); }
        std::multiset<std::string> before, after;
        for (auto& m : list) {
            std::ostringstream o;
            for (int v = 1; v <= W.domOf(f).K(); v++) { o << m.from[v] << "," << (S.rel ? m.to[v] : 0) << ";"; }
            o << showVal(m.v);
            before.insert(o.str());
        }
        for (unsigned i = 0; i < mc.size(); i++) {
            std::ostringstream o;
            const minterm& mm = mc.at(i);
            for (int v = 1; v <= W.domOf(f).K(); v++) {
                int lvl = F->getLevelByVar(v);
                o << mm.from(unsigned(lvl)) << "," << (S.rel ? mm.to(unsigned(lvl)) : 0) << ";";
            }
            o << showVal(fromRangeval(mm.getValue()));
            after.insert(o.str());
        }
        if (before != after) { delete e; return fail("C03.collection-changed", "buildFunction altered the minterms of the collection"); }
    } catch (MEDDLY::error& er) {
        delete e;
        return fail("exception", std::string("buildFunction(collection) threw ") + er.getName());
    }
    return produce(dst, f, e, T, useMax ? "buildFunctionMax" : "buildFunctionMin");
}

bool Interp::doOne(const Step& s)
{
    // one dst f deflt   (uses the last pending minterm)
    std::vector<PendingMinterm> mts;
    mts.swap(pending);
    if (s.size() < 4 || mts.empty()) { skip("one-short"); return true; }
    const int dst = toInt(s[1]), f = toInt(s[2]);
    if (dst < 0 || dst > 63 || !okForest(f)) { skip("one-forest"); return true; }
    const FSpec& S = W.fs[f];
    if (S.label == 'X') { skip("one-indexset"); return true; }
    Val deflt, v;
    if (!parseVal(s[3], S.range, deflt) || !valueAllowed(S, deflt)) { skip("one-deflt"); return true; }
    std::vector<int> mf, mt;
    if (!shapeMinterm(W, f, mts.back(), mf, mt)) { skip("mt-shape"); return true; }
    if (!parseVal(mts.back().valtok, S.range, v) || !valueAllowed(S, v)) { skip("mt-value"); return true; }
    Table T(size_t(W.tableSize(f)), deflt);
    std::vector<int> from, to;
    for (long idx = 0; idx < long(T.size()); idx++) {
        W.decode(f, idx, from, to);
        if (matches(W, f, mf, mt, from, to)) T[size_t(idx)] = v;
    }
    if (!exactVal(deflt, W.transparent(f))) R.labels.add("nondefault_default");
    for (size_t i = 1; i < mt.size(); i++) if (S.rel && mt[i] == -2) { R.labels.add("dont_change"); break; }
    if (exactVal(v, W.transparent(f))) R.labels.add("minterm_value_is_transparent");
    forest* F = W.F[f];
    dd_edge* e = new dd_edge(F);
    try {
        minterm m(F);
        setMinterm(W, f, m, mf, mt);
        m.setValue(toRangeval(v, S.range));
        m.buildFunction(toRangeval(deflt, S.range), *e);
    } catch (MEDDLY::error& er) {
        delete e;
        return fail("exception", std::string("minterm::buildFunction threw ") + er.getName());
    }
    return produce(dst, f, e, T, "minterm::buildFunction");
}

bool Interp::doConst(const Step& s)
{
    // const dst f val
    if (s.size() < 4) { skip("const-short"); return true; }
    const int dst = toInt(s[1]), f = toInt(s[2]);
    if (dst < 0 || dst > 63 || !okForest(f)) { skip("const-forest"); return true; }
    const FSpec& S = W.fs[f];
    if (S.label == 'X') { skip("const-indexset"); return true; }
    Val v;
    if (!parseVal(s[3], S.range, v) || !valueAllowed(S, v)) { skip("const-value"); return true; }
    Table T(size_t(W.tableSize(f)), v);
    forest* F = W.F[f];
    dd_edge* e = new dd_edge(F);
    try {
        F->createConstant(toRangeval(v, S.range), *e);
    } catch (MEDDLY::error& er) {
        delete e;
        return fail("exception", std::string("createConstant threw ") + er.getName());
    }
    R.labels.add("constant");
    return produce(dst, f, e, T, "createConstant");
}

bool Interp::doVar(const Step& s)
{
    // var dst f var primed [terms...]
    if (s.size() < 5) { skip("var-short"); return true; }
    const int dst = toInt(s[1]), f = toInt(s[2]), var = toInt(s[3]);
    const bool primed = toInt(s[4]) != 0;
    if (dst < 0 || dst > 63 || !okForest(f)) { skip("var-forest"); return true; }
    const FSpec& S = W.fs[f];
    const Dom& D = W.domOf(f);
    if (S.label == 'X') { skip("var-indexset"); return true; }
    if (var < 1 || var > D.K() || (primed && !S.rel)) { skip("var-bad"); return true; }
    const int sz = D.sizes[var];
    std::vector<Val> terms;
    bool haveTerms = s.size() > 5;
    if (haveTerms) {
        if (int(s.size()) != 5 + sz) { skip("var-terms"); return true; }
        for (int i = 0; i < sz; i++) {
            Val v;
            if (!parseVal(s[size_t(5 + i)], S.range, v) || !valueAllowed(S, v)) { skip("var-terms"); return true; }
            terms.push_back(v);
        }
    } else {
        for (int i = 0; i < sz; i++) {
            if (S.range == 'B') terms.push_back(Val::I(i ? 1 : 0));
            else if (S.range == 'I') terms.push_back(Val::I(i));
            else terms.push_back(Val::R(double(i)));
        }
    }
    Table T(size_t(W.tableSize(f)));
    std::vector<int> from, to;
    for (long idx = 0; idx < long(T.size()); idx++) {
        W.decode(f, idx, from, to);
        T[size_t(idx)] = terms[size_t(primed ? to[var] : from[var])];
    }
    forest* F = W.F[f];
    dd_edge* e = new dd_edge(F);
    try {
        if (haveTerms) {
            std::vector<rangeval> rv;
            for (auto& v : terms) rv.push_back(toRangeval(v, S.range));
            F->createEdgeForVar(var, primed, rv.data(), *e);
        } else {
            F->createEdgeForVar(var, primed, *e);
        }
    } catch (MEDDLY::error& er) {
        delete e;
        return fail("exception", std::string("createEdgeForVar threw ") + er.getName());
    }
    R.labels.add(primed ? "var_primed" : "var_unprimed");
    return produce(dst, f, e, T, "createEdgeForVar");
}

// ---------------------------------------------------------------------------------------
// operations
// ---------------------------------------------------------------------------------------

static bool tablesEqual(const Table& a, const Table& b)
{
    if (a.size() != b.size()) return false;
    for (size_t i = 0; i < a.size(); i++) if (!exactVal(a[i], b[i])) return false;
    return true;
}

bool Interp::doUnary(const Step& s)
{
    // un OP src dst f
    if (s.size() < 5) { skip("un-short"); return true; }
    const std::string& op = s[1];
    const int src = toInt(s[2]), dst = toInt(s[3]), fc = toInt(s[4]);
    if (!liveSlot(src) || dst < 0 || dst > 63 || !okForest(fc)) { skip("un-operands"); return true; }
    const int fa = W.slots[size_t(src)].f;
    if (W.fs[fa].dom != W.fs[fc].dom) { skip("un-domain"); return true; }
    if (op != "INDEXSET" && W.fs[fa].rel != W.fs[fc].rel) { skip("un-shape"); return true; }
    if (op == "INDEXSET") return true;     // handled in doExtra
    {
        // operand and result forests must have the same variable order (reordered forests)
        std::vector<int> oa(size_t(W.domOf(fa).K()) + 1), oc(oa.size());
        W.F[fa]->getVariableOrder(oa.data()); W.F[fc]->getVariableOrder(oc.data());
        if (oa != oc) { skip("un-order"); return true; }
    }
    // known finding (known_findings.json, KF-C05-distinc-identity): excluded from the campaign by
    // construction and counted; the corpus replays it in strict mode
    if (op == "DIST_INC" && W.fs[fa].rel && W.fs[fa].red == 'I' && !strictErrors) {
        R.labels.add("excluded.distinc_identity_operand");
        return true;
    }
    // known finding KF-C10-identity-zero-to-evplus
    if (op == "COPY" && W.fs[fa].rel && W.fs[fa].red == 'I' && W.fs[fa].label != 'P' && W.fs[fc].label == 'P' && !strictErrors) {
        R.labels.add("excluded.copy_identity_zero_to_evplus");
        return true;
    }
    ModelRes M = modelUnary(W, op, fa, W.slots[size_t(src)].T, fc);
    if (!M.defined) { skip(M.skipwhy); return true; }
    unary_factory* UFc = unaryFactory(op);
    if (!UFc) { skip("un-unknown"); return true; }
    unary_operation* uop = nullptr;
    try {
        uop = UFc->build(W.F[fa], W.F[fc]);
    } catch (MEDDLY::error& er) {
        if (er.getCode() == error::TYPE_MISMATCH || er.getCode() == error::NOT_IMPLEMENTED) { R.labels.add("unsupported." + op); return true; }
        return fail("exception", "build(" + op + ") threw " + er.getName());
    }
    if (!uop) { R.labels.add("unsupported." + op); return true; }
    // optional 6th token "inplace": apply(OP, x, x) on a copy of the operand edge
    const bool inplace = s.size() > 5 && s[5] == "inplace" && fa == fc;
    dd_edge* e = inplace ? new dd_edge(*W.slots[size_t(src)].e) : new dd_edge(W.F[fc]);
    if (inplace) R.labels.add("result_aliases_operand");
    dd_edge before(*W.slots[size_t(src)].e);
    try {
        if (inplace) uop->compute(*e, *e);
        else uop->compute(*W.slots[size_t(src)].e, *e);
    } catch (MEDDLY::error& er) {
        delete e;
        return fail("exception", op + " threw " + er.getName());
    }
    R.labels.add("op." + op);
    if (fa != fc) R.labels.add("cross_forest_op");
    if (W.fs[fa].red != W.fs[fc].red) R.labels.add("reductions_differ");
    else if (fa != fc) R.labels.add("same_rule_distinct_forest");
    if (C.operands) {
        if (!(before == *W.slots[size_t(src)].e)) { delete e; return fail("operand-changed", op + " changed its operand edge"); }
    }
    Table T = M.T;
    return produce(dst, fc, e, T, op.c_str());
}

bool Interp::doBinary(const Step& s)
{
    // bin OP a b dst f
    if (s.size() < 6) { skip("bin-short"); return true; }
    const std::string& op = s[1];
    const int a = toInt(s[2]), b = toInt(s[3]), dst = toInt(s[4]), fc = toInt(s[5]);
    if (!liveSlot(a) || !liveSlot(b) || dst < 0 || dst > 63 || !okForest(fc)) { skip("bin-operands"); return true; }
    const int fa = W.slots[size_t(a)].f, fb = W.slots[size_t(b)].f;
    if (W.fs[fa].dom != W.fs[fc].dom || W.fs[fb].dom != W.fs[fc].dom) { skip("bin-domain"); return true; }
    ModelRes M = modelBinary(W, op, fa, W.slots[size_t(a)].T, fb, W.slots[size_t(b)].T, fc, strictErrors);
    if (!M.defined) { skip(M.skipwhy); return true; }
    if ((!M.mustThrow.empty() || !M.mayThrow.empty()) && P.property != "C16" && P.property != "C05") { skip("error-case"); return true; }
    binary_factory* BF = binaryFactory(op);
    if (!BF) { skip("bin-unknown"); return true; }
    binary_operation* bop = nullptr;
    try {
        bop = BF->build(W.F[fa], W.F[fb], W.F[fc]);
    } catch (MEDDLY::error& er) {
        if (er.getCode() == error::TYPE_MISMATCH || er.getCode() == error::NOT_IMPLEMENTED) { R.labels.add("unsupported." + op); return true; }
        return fail("exception", "build(" + op + ") threw " + er.getName());
    }
    if (!bop) { R.labels.add("unsupported." + op); return true; }
    // variable orders must be compatible (reordered forests)
    {
        std::vector<int> oa(size_t(W.domOf(fa).K()) + 1), ob(oa.size()), oc(oa.size());
        W.F[fa]->getVariableOrder(oa.data()); W.F[fb]->getVariableOrder(ob.data()); W.F[fc]->getVariableOrder(oc.data());
        if (oa != ob || oa != oc) { skip("bin-order"); return true; }
    }
    // optional 7th token: the result edge is (a copy of) an operand edge -- "ia": apply(OP, x, b, x),
    // "ib": apply(OP, a, x, x), "iab": apply(OP, x, x, x); the slots' own edges stay untouched
    const std::string alias = s.size() > 6 ? s[6] : "";
    dd_edge* e = nullptr;
    const dd_edge *pa = W.slots[size_t(a)].e, *pb = W.slots[size_t(b)].e;
    if (alias == "ia" && fa == fc) { e = new dd_edge(*W.slots[size_t(a)].e); pa = e; R.labels.add("result_aliases_operand"); }
    else if (alias == "ib" && fb == fc) { e = new dd_edge(*W.slots[size_t(b)].e); pb = e; R.labels.add("result_aliases_operand"); }
    else if (alias == "iab" && fa == fc && a == b) { e = new dd_edge(*W.slots[size_t(a)].e); pa = pb = e; R.labels.add("result_aliases_operand"); }
    else if (alias == "used") {
        // the result edge already holds some other function of the result forest
        for (size_t sl = 0; sl < W.slots.size() && !e; sl++)
            if (int(sl) != a && int(sl) != b && liveSlot(int(sl)) && W.slots[sl].f == fc) { e = new dd_edge(*W.slots[sl].e); R.labels.add("result_edge_was_in_use"); }
        if (!e) e = new dd_edge(W.F[fc]);
    }
    else e = new dd_edge(W.F[fc]);
    dd_edge beforeA(*W.slots[size_t(a)].e), beforeB(*W.slots[size_t(b)].e);
    const dd_edge beforeE(*e);      // what the result edge held before the call
    bool threw = false; int code = -1; std::string ename;
    try {
        bop->compute(*pa, *pb, *e);
    } catch (MEDDLY::error& er) {
        threw = true; code = int(er.getCode()); ename = er.getName();
    }
    if (threw && !(beforeE == *e)) {
        // a rejected call must leave every edge as it was, the result edge included
        delete e;
        return fail("C16.result-edge-changed-by-rejected-call", op + " threw " + ename + " but changed the edge passed as the result");
    }
    if (threw && !alias.empty()) R.labels.add("error_with_result_edge_in_use");
    R.labels.add("op." + op);
    if (fa != fc || fb != fc) R.labels.add("cross_forest_op");
    {
        bool distinctSameRule = (fa != fb && W.fs[fa].red == W.fs[fb].red) || (fa != fc && W.fs[fa].red == W.fs[fc].red)
                             || (fb != fc && W.fs[fb].red == W.fs[fc].red);
        if (distinctSameRule) R.labels.add("same_rule_distinct_forest");
        if (W.fs[fa].red != W.fs[fc].red || W.fs[fb].red != W.fs[fc].red) R.labels.add("reductions_differ");
    }
    if (a == b) R.labels.add("same_edge_operands");
    if (M.proneErrors && !strictErrors) R.labels.add("excluded.shortcut_prone_error_points");
    if (!M.mustThrow.empty()) {
        R.labels.add("error_case." + op);
        if (!threw) { delete e; return fail("C05.missing-error", op + " returned normally although the scalar operation is invalid at some point"); }
        if (std::find(M.mustThrow.begin(), M.mustThrow.end(), code) == M.mustThrow.end()
            && std::find(M.mayThrow.begin(), M.mayThrow.end(), code) == M.mayThrow.end()) {
            delete e; return fail("C05.wrong-error", op + " threw " + ename + ", not the documented code");
        }
        delete e;
        R.labels.add("error_raised");
        if (C.operands) {
            if (!(beforeA == *W.slots[size_t(a)].e) || !(beforeB == *W.slots[size_t(b)].e)) return fail("operand-changed", op + " changed an operand edge");
        }
        return true;
    }
    if (threw && std::find(M.mayThrow.begin(), M.mayThrow.end(), code) != M.mayThrow.end()) {
        delete e;
        R.labels.add("unspecified_error_raised");
        return true;
    }
    if (threw) { delete e; return fail("exception", op + " threw " + ename); }
    if (C.operands) {
        if (!(beforeA == *W.slots[size_t(a)].e) || !(beforeB == *W.slots[size_t(b)].e)) { delete e; return fail("operand-changed", op + " changed an operand edge"); }
    }
    {
        bool ca = true, cb = true;
        const Table &TA = W.slots[size_t(a)].T, &TB = W.slots[size_t(b)].T;
        for (size_t i = 1; i < TA.size(); i++) if (!exactVal(TA[i], TA[0])) { ca = false; break; }
        for (size_t i = 1; i < TB.size(); i++) if (!exactVal(TB[i], TB[0])) { cb = false; break; }
        if (!ca && !cb) R.labels.add("both_operands_nonconstant");
        if (tablesEqual(TA, TB)) R.labels.add("equal_operand_functions");
    }
    Table T = M.T;
    return produce(dst, fc, e, T, op.c_str());
}

bool Interp::doScalar(const Step& s)
{
    // scalar OP src
    if (s.size() < 3) { skip("scalar-short"); return true; }
    const std::string& op = s[1];
    const int src = toInt(s[2]);
    if (!liveSlot(src)) { skip("scalar-operand"); return true; }
    const Slot& S = W.slots[size_t(src)];
    const FSpec& FS = W.fs[S.f];
    const Table& T = S.T;
    for (auto& v : T) if (v.isUn()) { skip("scalar-unspec"); return true; }
    try {
        if (op == "CARD_L" || op == "CARD_D" || op == "CARD_Z") {
            // number of assignments whose value is not the default (zero / false / infinity)
            if (FS.label == 'T') { skip("card-evtimes"); return true; }
            long want = 0;
            const Val tv = W.transparent(S.f);
            for (auto& v : T) if (!exactVal(v, tv) && !(v.t == VR && v.d == 0.0)) want++;
            if (op == "CARD_L") {
                long got = -1;
                apply(CARDINALITY, *S.e, got);
                if (got != want) return fail("C11.cardinality", "CARDINALITY(long) = " + std::to_string(got) + ", model " + std::to_string(want));
            } else if (op == "CARD_D") {
                double got = -1;
                apply(CARDINALITY, *S.e, got);
                if (got != double(want)) return fail("C11.cardinality", "CARDINALITY(double) = " + std::to_string(got) + ", model " + std::to_string(want));
            } else {
#ifdef HAVE_LIBGMP
                mpz_t z; mpz_init(z);
                apply(CARDINALITY, *S.e, z);
                long got = mpz_get_si(z);
                bool fits = mpz_fits_slong_p(z);
                mpz_clear(z);
                if (!fits || got != want) return fail("C11.cardinality", "CARDINALITY(mpz) = " + std::to_string(got) + ", model " + std::to_string(want));
#endif
            }
            R.labels.add("op." + op);
            return true;
        }
        if (op == "MAXR" || op == "MINR") {
            if (FS.range == 'B' || FS.label == 'X') { skip("range-bool"); return true; }
            bool isMax = op == "MAXR";
            Val best = T[0];
            for (auto& v : T) { int c = cmpVal(v, best); if (isMax ? c > 0 : c < 0) best = v; }
            if (best.isInf()) { skip("range-inf"); return true; }
            bool hasZero = false; for (auto& v : T) if (!v.isInf() && v.num() == 0) hasZero = true;
            if (hasZero) R.labels.add("range_with_zero");
            if (FS.range == 'I') {
                long got = 0;
                if (isMax) apply(MAX_RANGE, *S.e, got); else apply(MIN_RANGE, *S.e, got);
                if (got != best.i) return fail("C05.range", op + " = " + std::to_string(got) + ", model " + showVal(best));
            } else {
                double got = 0;
                if (isMax) apply(MAX_RANGE, *S.e, got); else apply(MIN_RANGE, *S.e, got);
                if (!sameVal(Val::R(got), best)) return fail("C05.range", op + " = " + std::to_string(got) + ", model " + showVal(best));
            }
            R.labels.add("op." + op);
            return true;
        }
    } catch (MEDDLY::error& er) {
        if (er.getCode() == error::TYPE_MISMATCH || er.getCode() == error::NOT_IMPLEMENTED) { R.labels.add("unsupported." + op); return true; }
        return fail("exception", op + " threw " + er.getName());
    }
    skip("scalar-unknown");
    return true;
}

// ---------------------------------------------------------------------------------------
// edge handling, caches
// ---------------------------------------------------------------------------------------
bool Interp::doEdgeOps(const Step& s)
{
    const std::string& op = s[0];
    if (op == "dup") {          // copy constructor
        if (s.size() < 3) { skip("dup-short"); return true; }
        int src = toInt(s[1]), dst = toInt(s[2]);
        if (!liveSlot(src) || dst < 0 || dst > 63 || dst == src) { skip("dup-operands"); return true; }
        dd_edge* e = new dd_edge(*W.slots[size_t(src)].e);
        if (!(*e == *W.slots[size_t(src)].e)) { delete e; return fail("C01.copy-differs", "copy-constructed edge != original"); }
        Table T = W.slots[size_t(src)].T;
        W.setSlot(dst, W.slots[size_t(src)].f, e, T);
        R.labels.add("edge_copy");
        return true;
    }
    if (op == "assign") {       // operator= onto an existing edge (possibly of another forest)
        if (s.size() < 3) { skip("assign-short"); return true; }
        int src = toInt(s[1]), dst = toInt(s[2]);
        if (!liveSlot(src) || !liveSlot(dst) || dst == src) { skip("assign-operands"); return true; }
        *W.slots[size_t(dst)].e = *W.slots[size_t(src)].e;
        W.slots[size_t(dst)].f = W.slots[size_t(src)].f;
        W.slots[size_t(dst)].T = W.slots[size_t(src)].T;
        R.labels.add("edge_assign");
        return true;
    }
    if (op == "release") {
        if (s.size() < 2) { skip("release-short"); return true; }
        int sl = toInt(s[1]);
        if (!liveSlot(sl)) { skip("release-empty"); return true; }
        W.release(sl);
        R.labels.add("edge_release");
        return true;
    }
    if (op == "temps") {        // n temporary copies, destroyed again (drives the incoming count up and down)
        if (s.size() < 3) { skip("temps-short"); return true; }
        int src = toInt(s[1]); long n = atol(s[2].c_str());
        if (!liveSlot(src) || n < 1 || n > 200000) { skip("temps-operands"); return true; }
        std::vector<dd_edge*> v;
        v.reserve(size_t(n));
        for (long i = 0; i < n; i++) v.push_back(new dd_edge(*W.slots[size_t(src)].e));
        Failure fl;
        if (C.recount && !oracleRecount(W, W.slots[size_t(src)].f, fl, true)) { for (auto p : v) delete p; return fail(fl.tag, "with temporaries alive: " + fl.msg); }
        for (auto p : v) delete p;
        if (n > 255) R.labels.add("count_over_255");
        if (n > 65535) R.labels.add("count_over_65535");
        return true;
    }
    if (op == "hold") {         // hold src n pile : n copies of an edge, kept until `unhold pile`
        if (s.size() < 4) { skip("hold-short"); return true; }
        int src = toInt(s[1]); long n = atol(s[2].c_str()); int pile = toInt(s[3]);
        if (!liveSlot(src) || n < 1 || n > 200000 || pile < 0 || pile > 7) { skip("hold-operands"); return true; }
        if (piles.size() <= size_t(pile)) piles.resize(size_t(pile) + 1);
        if (W.slots[size_t(src)].e->getNode() <= 0) { skip("hold-terminal"); return true; }
        for (long i = 0; i < n; i++) piles[size_t(pile)].push_back(new dd_edge(*W.slots[size_t(src)].e));
        pileForest.resize(piles.size(), -1);
        pileForest[size_t(pile)] = W.slots[size_t(src)].f;
        if (n > 65535) R.labels.add("held_over_65535");
        int big = 0;
        for (auto& p : piles) if (p.size() > 65535) big++;
        if (big >= 2) R.labels.add("two_counters_over_16bit");
        return true;
    }
    if (op == "unhold") {
        if (s.size() < 2) { skip("unhold-short"); return true; }
        int pile = toInt(s[1]);
        if (pile < 0 || size_t(pile) >= piles.size() || piles[size_t(pile)].empty()) { skip("unhold-empty"); return true; }
        for (auto p : piles[size_t(pile)]) delete p;
        piles[size_t(pile)].clear();
        R.labels.add("pile_released");
        return true;
    }
    if (op == "clearct") {
        if (s.size() < 2) { skip("clearct-short"); return true; }
        int f = toInt(s[1]);
        if (!okForest(f)) { skip("clearct-forest"); return true; }
        W.F[f]->removeAllComputeTableEntries();
        R.labels.add("ct_clear");
        return true;
    }
    if (op == "stales") {
        if (compute_table::removeStalesFromMonolithic()) R.labels.add("ct_remove_stales");
        else R.labels.add("ct_remove_stales_nomono");
        return true;
    }
    if (op == "audit") {
        Checks save = C;
        C.audit = true; C.recount = true; C.cachecount = true;
        bool ok = auditAll();
        C = save;
        return ok;
    }
    return true;
}

// ---------------------------------------------------------------------------------------

bool Interp::step(const Step& s, int index)
{
    if (s.empty()) return true;
    const std::string& op = s[0];
    bool ok = true;
    try {
        if (op == "mt") ok = doMinterm(s);
        else if (op == "coll") ok = doColl(s);
        else if (op == "one") ok = doOne(s);
        else if (op == "const") ok = doConst(s);
        else if (op == "var") ok = doVar(s);
        else if (op == "un" && s.size() > 1 && s[1] != "INDEXSET") ok = doUnary(s);
        else if (op == "bin") ok = doBinary(s);
        else if (op == "scalar") ok = doScalar(s);
        else if (op == "strict") { strictErrors = true; }
        else if (op == "dup" || op == "assign" || op == "release" || op == "temps" || op == "clearct"
                 || op == "stales" || op == "audit" || op == "hold" || op == "unhold") ok = doEdgeOps(s);
        else {
            bool handled = false;
            ok = doExtra(s, handled);
            if (!handled) skip("unknown-step");
        }
    } catch (MEDDLY::error& er) {
        ok = fail("exception", std::string("step '") + op + "' threw " + er.getName());
    }
    if (!ok) { R.failStep = index; return false; }
    if (op == "mt") return true;
    if ((index % C.auditEvery) == 0 || true) {
        if (!afterStep(index)) { R.failStep = index; return false; }
    }
    return true;
}

void Interp::run()
{
    W.start(P.ct);
    for (auto& d : P.domains) {
        W.addDomain(d);
        for (int x : d) if (x == 1) R.labels.add("variable_of_size_1");
    }
    for (auto& f : P.forests) {
        if (W.addForest(f) < 0) R.labels.add("forest_refused");
    }
    for (size_t i = 0; i < P.steps.size(); i++) {
        if (!step(P.steps[i], int(i))) return;
    }
    // every edge still held at the end must still denote its function (catches in-place damage
    // to shared nodes by an operation that returned a correct result)
    if (C.operands && !C.allslots) {
        for (size_t sl = 0; sl < W.slots.size(); sl++) {
            if (!liveSlot(int(sl))) continue;
            Failure fl;
            if (!oracleEval(W, W.slots[sl].f, *W.slots[sl].e, W.slots[sl].T, fl)) {
                fail("operand-changed", "at the end of the program slot " + std::to_string(sl) + " no longer denotes its function: " + fl.msg);
                R.failStep = int(P.steps.size());
                return;
            }
        }
    }
    if (getenv("MVH_DUMP")) {
        for (size_t sl = 0; sl < W.slots.size(); sl++) if (liveSlot(int(sl)))
            printf("SLOT %zu forest %d\n%s", sl, W.slots[sl].f, canonicalForm(W, W.slots[sl].f, *W.slots[sl].e).c_str());
    }
    // classification labels from the world
    for (size_t f = 0; f < W.fs.size(); f++) {
        if (!W.F[f]) continue;
        const FSpec& S = W.fs[f];
        std::string kind = std::string(1, S.label) + S.range + (S.rel ? "rel" : "set") + S.red;
        R.labels.add("forest." + kind);
        R.labels.add(std::string("policy.stor") + char('0' + S.stor) + ".mm" + char('0' + S.mm) + ".del" + S.del);
    }
    {
        const Dom& D = W.doms[0];
        bool uniform = true; int mx = 0;
        for (int v = 1; v <= D.K(); v++) { if (D.sizes[v] != D.sizes[1]) uniform = false; if (D.sizes[v] > mx) mx = D.sizes[v]; }
        if (!uniform) R.labels.add("nonuniform_sizes");
        if (mx > 16) R.labels.add("level_size_over_16");
        R.labels.add("K" + std::to_string(D.K()));
    }
    for (auto& p : piles) { for (auto e : p) delete e; p.clear(); }
    W.stop();
}

// C12: the same program under several storage x memory-manager x deletion combinations
static std::vector<std::array<int, 3>> policyCombos(int tier)
{
    std::vector<std::array<int, 3>> v;
    if (tier) {
        for (int s = 1; s <= 3; s++) for (int m = 0; m < 4; m++) for (int d = 0; d < 3; d++) v.push_back({s, m, d});
    } else {
        // covering sample: every value of every factor with every value of the others at least once
        static const int cs[12][3] = {{3,1,0},{1,0,0},{2,2,1},{3,3,2},{1,1,1},{2,0,2},{3,2,0},{1,3,1},{2,1,2},{1,2,2},{2,3,0},{3,0,1}};
        for (auto& c : cs) v.push_back({c[0], c[1], c[2]});
    }
    return v;
}

RunResult runCase(const Program& P, int tier)
{
    Checks C = checksFor(P.property);
    if (P.property != "C12") return runProgram(P, C);
    C.fingerprint = true;
    for (auto& f : P.forests) if (f.label == 'T') C.fingerprint = false;     // EV*: values only (see produce())
    RunResult first;
    bool haveFirst = false;
    std::string firstName;
    for (auto& combo : policyCombos(tier)) {
        Program Q = P;
        for (auto& f : Q.forests) { f.stor = combo[0]; f.mm = combo[1]; f.del = "OPN"[combo[2]]; }
        RunResult r = runProgram(Q, C);
        std::string name = "stor=" + std::to_string(combo[0]) + " mm=" + std::to_string(combo[1]) + " del=" + std::string(1, "OPN"[combo[2]]);
        if (!r.ok) { r.fail.msg = "[" + name + "] " + r.fail.msg; return r; }
        if (!haveFirst) { first = r; haveFirst = true; firstName = name; continue; }
        if (r.fingerprint != first.fingerprint) {
            r.ok = false;
            r.fail = {"C12.differential", "canonical forms / node counts of the produced edges differ between [" + firstName + "] and [" + name + "]"};
            return r;
        }
        for (auto& kv : r.labels.c) if (kv.first == "both_storage_forms" || kv.first == "node_death" || kv.first == "handle_reuse") first.labels.add(kv.first, kv.second);
        first.labels.add("policy_variants");
    }
    if (!C.fingerprint) first.labels.add("structure_not_compared_evstar");
    first.nontrivial = first.ok && nontrivialRule(P.property, first.labels);
    return first;
}

RunResult runProgram(const Program& P, const Checks& C)
{
    Interp I(P, C);
    I.run();
    I.R.nontrivial = I.R.ok && nontrivialRule(P.property, I.R.labels);
    return I.R;
}

} // namespace mv
