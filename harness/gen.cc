// gen.cc -- generator helpers shared by all properties
#include "gen.h"
#include <algorithm>

namespace mv {

const std::vector<Gen::Kind>& Gen::kinds()
{
    static const std::vector<Kind> k = {
        {false, 'B', 'M'}, {false, 'I', 'M'}, {false, 'R', 'M'},
        {true, 'B', 'M'},  {true, 'I', 'M'},  {true, 'R', 'M'},
        {false, 'I', 'P'}, {true, 'I', 'P'},  {true, 'R', 'T'},
    };
    return k;
}

void Gen::randomCt(bool vary)
{
    CtSpec c;
    if (vary) {
        c.style = int(R.below(4));
        c.stale = int(R.below(3));
        static const long sizes[] = {0, 0, 1024, 4096, 65536};
        c.maxsize = sizes[R.below(5)];
        c.compress = int(R.below(2));
    }
    P.ct = c;
}

int Gen::addDomain(bool rel, int maxK, long maxStates)
{
    if (!maxK) maxK = rel ? 3 : 5;
    if (!maxStates) maxStates = rel ? (tier ? 100 : 48) : (tier ? 6000 : 768);
    if (getenv("MVH_TINY")) { maxK = 3; maxStates = 12; }      // development aid: tiny domains
    int K = R.range(1, maxK);
    std::vector<int> sz;
    for (int i = 0; i < K; i++) {
        int r = int(R.below(100));
        int s = r < 78 ? R.range(2, 4) : r < 94 ? R.range(5, 9) : R.range(17, 20);
        // a variable with a single value is legal (bound 1); identity-reduced relation forests over such a
        // domain are a recorded known finding and are not created by the interpreter (label excluded.*)
        if (R.chance(getenv("MVH_SIZE1") ? 30 : 3)) s = 1;
        sz.push_back(s);
    }
    auto prod = [&]() { long p = 1; for (int s : sz) p *= s; return p; };
    while (prod() > maxStates) {
        auto it = std::max_element(sz.begin(), sz.end());
        if (*it > 2) *it = (*it > 9) ? 4 : *it - 1;
        else sz.pop_back();
    }
    if (sz.empty()) sz.push_back(2);
    if (getenv("MVH_UNIFORM")) for (auto& s : sz) s = sz[0];      // development aid
    P.domains.push_back(sz);
    return int(P.domains.size()) - 1;
}

void Gen::randomPolicies(FSpec& f)
{
    f.stor = 1 + int(R.below(3));
    f.mm = int(R.below(4));
    f.del = "OOPPN"[R.below(5)];
}

FSpec Gen::forestSpec(int dom, bool rel, char range, char label, char red, bool randPol)
{
    FSpec f;
    f.dom = dom; f.rel = rel; f.range = range; f.label = label; f.red = red;
    if (!rel && red == 'I') f.red = 'F';
    if (randPol) randomPolicies(f);
    return f;
}

std::string Gen::tok(const FSpec& f, const GVal& v) const
{
    if (v.inf) return "inf";
    if (f.range == 'R') return "r" + std::to_string(v.k);
    return std::to_string(v.k);
}

GVal Gen::randomValue(const FSpec& f, bool allowInf, bool nonzero)
{
    GVal g;
    if (f.range == 'B') { g.k = nonzero ? 1 : long(R.below(2)); return g; }
    if (f.label == 'P' && allowInf && R.chance(20)) { g.inf = true; return g; }
    for (;;) {
        int r = int(R.below(100));
        long k;
        if (r < 70) k = R.range(-6, 9);
        else if (r < 92) k = R.range(-40, 60);
        else k = R.range(-1000, 1000);
        if (f.range == 'R' && r >= 92) k = R.range(-4000, 4000);
        if (nonzero && k == 0) continue;
        g.k = k;
        return g;
    }
}

std::vector<GVal> Gen::palette(const FSpec& f, int n, bool allowInf, bool nonzero)
{
    std::vector<GVal> p;
    for (int i = 0; i < n; i++) p.push_back(randomValue(f, allowInf, nonzero));
    return p;
}

void Gen::emitMinterm(int f, int style, const std::string& val)
{
    const FSpec& S = P.forests[size_t(f)];
    const std::vector<int>& sz = P.domains[size_t(S.dom)];
    const int K = int(sz.size());
    Step s{"mt"};
    std::vector<int> from, to;
    from.resize(size_t(K)); to.resize(size_t(K));
    for (int v = 0; v < K; v++) {
        int a = int(R.below(uint32_t(sz[size_t(v)])));
        int b = int(R.below(uint32_t(sz[size_t(v)])));
        switch (style) {
            case 0: break;                                       // explicit point
            case 1: if (R.chance(40)) a = -1; if (R.chance(40)) b = -1; break;      // don't cares
            case 2:                                              // identity patterns
                if (R.chance(55)) { a = -1; b = -2; }
                else if (R.chance(30)) { b = a; }
                else if (R.chance(30)) { b = -2; }
                break;
            default:
                if (R.chance(25)) a = -1;
                if (R.chance(25)) b = -1; else if (R.chance(20)) b = -2;
                break;
        }
        from[size_t(v)] = a; to[size_t(v)] = b;
    }
    for (int v = 0; v < K; v++) s.push_back(num(from[size_t(v)]));
    if (S.rel) for (int v = 0; v < K; v++) s.push_back(num(to[size_t(v)]));
    s.push_back(val);
    emit(s);
}

void Gen::genCollection(int dst, int f, int maxMinterms, bool nonzero)
{
    const FSpec& S = P.forests[size_t(f)];
    int n = int(R.below(uint32_t(maxMinterms + 1)));
    if (R.chance(10)) n = maxMinterms * 3;
    const bool useMax = R.chance(50);
    std::vector<GVal> pal = palette(S, R.range(1, 4), true, nonzero);
    if (!allowTransparentMintermValue) {
        GVal t = transparent(S);
        for (auto& g : pal) while (cmp(g, t) == 0) g = randomValue(S, true, true);
    }
    // default respecting the ordering rule
    GVal lo = pal[0], hi = pal[0];
    for (auto& g : pal) { if (cmp(g, lo) < 0) lo = g; if (cmp(g, hi) > 0) hi = g; }
    GVal deflt;
    if (S.range == 'B') { deflt.k = useMax ? 0 : 1; if (nonzero) { deflt.k = 1; } }
    else if (useMax) {
        deflt = lo;
        if (lo.inf) { deflt = lo; }
        else if (R.chance(60)) deflt.k = lo.k - long(R.below(3));
        if (!nonzero && !deflt.inf && R.chance(40) && lo.k >= 0 && !(S.label == 'P')) deflt.k = 0;
    } else {
        deflt = hi;
        if (S.label == 'P' && R.chance(60)) deflt.inf = true;
        else if (!hi.inf && R.chance(60)) deflt.k = hi.k + long(R.below(3));
        if (!nonzero && !deflt.inf && R.chance(30) && hi.k <= 0 && !(S.label == 'P')) deflt.k = 0;
    }
    if (nonzero && !deflt.inf && deflt.k == 0) deflt.k = useMax ? lo.k - 1 : hi.k + 1;
    if (nonzero && !deflt.inf && deflt.k == 0) deflt.k = useMax ? -1 : 1;
    if (S.range == 'B' && nonzero) { /* constant true */ }
    int style0 = int(R.below(4));
    for (int i = 0; i < n; i++) {
        int style = R.chance(70) ? style0 : int(R.below(4));
        if (!S.rel && style == 2) style = 1;
        GVal v = pal[R.below(uint32_t(pal.size()))];
        if (S.range == 'B') { v.k = useMax ? 1 : 0; if (nonzero) v.k = 1; }
        emitMinterm(f, style, tok(S, v));
    }
    emit({"coll", num(dst), num(f), useMax ? "max" : "min", tok(S, deflt)});
    setLive(dst, f, nonzero);
}

void Gen::genConst(int dst, int f, bool nonzero)
{
    const FSpec& S = P.forests[size_t(f)];
    emit({"const", num(dst), num(f), tok(S, randomValue(S, true, nonzero))});
    setLive(dst, f, nonzero);
}

void Gen::genVar(int dst, int f, bool nonzero)
{
    const FSpec& S = P.forests[size_t(f)];
    const std::vector<int>& sz = P.domains[size_t(S.dom)];
    int var = R.range(1, int(sz.size()));
    bool primed = S.rel && R.chance(50);
    Step s{"var", num(dst), num(f), num(var), primed ? "1" : "0"};
    bool nz = nonzero;
    if (R.chance(60) || nonzero) {
        for (int i = 0; i < sz[size_t(var - 1)]; i++) s.push_back(tok(S, randomValue(S, true, nonzero)));
    } else nz = false;
    emit(s);
    setLive(dst, f, nz);
}

void Gen::genFunction(int dst, int f, int maxMinterms, bool nonzero)
{
    const FSpec& S = P.forests[size_t(f)];
    int r = int(R.below(100));
    if (r < 10) { genConst(dst, f, nonzero); return; }
    if (r < 20) { genVar(dst, f, nonzero); return; }
    if (r < 32 && !nonzero) {
        GVal v = randomValue(S, true, false);
        GVal d = randomValue(S, true, false);
        if (R.chance(50)) d = transparent(S);
        if (S.range == 'B') { d.k = R.below(2); v.k = 1 - d.k; }
        if (!allowTransparentMintermValue) { GVal t = transparent(S); while (cmp(v, t) == 0) v = randomValue(S, true, true); }
        int style = int(R.below(4));
        if (!S.rel && style == 2) style = 1;
        emitMinterm(f, style, tok(S, v));
        emit({"one", num(dst), num(f), tok(S, d)});
        setLive(dst, f, false);
        return;
    }
    genCollection(dst, f, maxMinterms, nonzero);
}

int Gen::pickLive(int f)
{
    std::vector<int> c;
    for (size_t i = 0; i < slots.size(); i++) if (slots[i].live && (f < 0 || slots[i].f == f)) c.push_back(int(i));
    if (c.empty()) return -1;
    return c[R.below(uint32_t(c.size()))];
}

int Gen::pickLiveWhere(const std::function<bool(const FSpec&)>& pred)
{
    std::vector<int> c;
    for (size_t i = 0; i < slots.size(); i++) if (slots[i].live && pred(P.forests[size_t(slots[i].f)])) c.push_back(int(i));
    if (c.empty()) return -1;
    return c[R.below(uint32_t(c.size()))];
}

int Gen::freeSlot(int maxSlots)
{
    for (int i = 0; i < maxSlots; i++) if (i >= int(slots.size()) || !slots[size_t(i)].live) return i;
    return int(R.below(uint32_t(maxSlots)));      // overwrite
}

static bool isSetOp(const std::string& o) { return o == "UNION" || o == "INTERSECTION" || o == "DIFFERENCE"; }
static bool isArithOp(const std::string& o)
{
    return o == "PLUS" || o == "MINUS" || o == "MULTIPLY" || o == "DIVIDE" || o == "MODULO" || o == "MAXIMUM" || o == "MINIMUM";
}
static bool isCmpOp(const std::string& o)
{
    return o == "EQUAL" || o == "NOT_EQUAL" || o == "LESS_THAN" || o == "LESS_THAN_EQUAL" || o == "GREATER_THAN" || o == "GREATER_THAN_EQUAL";
}

bool Gen::emitOp(const std::vector<std::string>& ops, const std::vector<int>& pool)
{
    auto inPool = [&](int f) { return std::find(pool.begin(), pool.end(), f) != pool.end(); };
    auto pickForest = [&](const std::function<bool(const FSpec&)>& pred) {
        std::vector<int> c;
        for (int f : pool) if (pred(P.forests[size_t(f)])) c.push_back(f);
        return c.empty() ? -1 : c[R.below(uint32_t(c.size()))];
    };
    // sometimes the result edge IS an operand edge (x += y, apply(OP, x, y, x), apply(OP, x, x)): the
    // library's own compound operators use that form
    auto emitBin = [&](const std::string& op, int a, int b, int dst, int fc) {
        Step st{"bin", op, num(a), num(b), num(dst), num(fc)};
        if (R.chance(12)) {
            const bool ca = slots[size_t(a)].f == fc, cb = slots[size_t(b)].f == fc;
            if (a == b && ca && R.chance(40)) st.push_back("iab");
            else if (ca && (!cb || R.chance(50))) st.push_back("ia");
            else if (cb) st.push_back("ib");
        }
        else if (R.chance(5)) st.push_back("used");
        emit(st);
    };
    auto emitUn = [&](const std::string& op, int a, int dst, int fc) {
        Step st{"un", op, num(a), num(dst), num(fc)};
        if (slots[size_t(a)].f == fc && R.chance(12)) st.push_back("inplace");
        emit(st);
    };
    for (int attempt = 0; attempt < 6; attempt++) {
        const std::string& op = ops[R.below(uint32_t(ops.size()))];
        if (isSetOp(op)) {
            int a = pickLiveWhere([&](const FSpec& s) { return s.range == 'B' && s.label == 'M'; });
            if (a < 0 || !inPool(slots[size_t(a)].f)) continue;
            const FSpec A = P.forests[size_t(slots[size_t(a)].f)];
            auto same = [&](const FSpec& s) { return s.range == 'B' && s.label == 'M' && s.rel == A.rel && s.dom == A.dom; };
            int b = R.chance(8) ? a : pickLiveWhere(same);
            int fc = pickForest(same);
            if (b < 0 || fc < 0) continue;
            int dst = freeSlot();
            emitBin(op, a, b, dst, fc);
            setLive(dst, fc);
            return true;
        }
        if (op == "COMPLEMENT") {
            int a = pickLiveWhere([&](const FSpec& s) { return s.range == 'B' && s.label == 'M'; });
            if (a < 0) continue;
            const FSpec A = P.forests[size_t(slots[size_t(a)].f)];
            int fc = pickForest([&](const FSpec& s) { return s.range == 'B' && s.label == 'M' && s.rel == A.rel && s.dom == A.dom; });
            if (fc < 0) continue;
            int dst = freeSlot();
            emitUn(op, a, dst, fc);
            setLive(dst, fc);
            return true;
        }
        if (op == "CROSS") {
            auto isBoolSet = [&](const FSpec& s) { return s.range == 'B' && s.label == 'M' && !s.rel; };
            int a = pickLiveWhere(isBoolSet);
            if (a < 0) continue;
            const FSpec A = P.forests[size_t(slots[size_t(a)].f)];
            int b = pickLiveWhere([&](const FSpec& s) { return isBoolSet(s) && s.dom == A.dom; });
            int fc = pickForest([&](const FSpec& s) { return s.range == 'B' && s.label == 'M' && s.rel && s.dom == A.dom; });
            if (b < 0 || fc < 0) continue;
            int dst = freeSlot();
            emitBin(op, a, b, dst, fc);
            setLive(dst, fc);
            return true;
        }
        if (isArithOp(op) || op == "DIST_MIN") {
            int a = pickLiveWhere([&](const FSpec& s) { return s.range != 'B' && s.label != 'X' && (op != "DIST_MIN" || s.label == 'M') && (op != "MODULO" || s.range == 'I'); });
            if (a < 0 || !inPool(slots[size_t(a)].f)) continue;
            const FSpec A = P.forests[size_t(slots[size_t(a)].f)];
            auto same = [&](const FSpec& s) { return s.range == A.range && s.label == A.label && s.rel == A.rel && s.dom == A.dom; };
            int fc = pickForest(same);
            if (fc < 0) continue;
            int b;
            if (op == "DIVIDE" || op == "MODULO") {
                int fb = pickForest(same);
                if (fb < 0) continue;
                b = freeSlot();
                genFunction(b, fb, 8, true);
            } else {
                b = R.chance(8) ? a : pickLiveWhere(same);
            }
            if (b < 0) continue;
            int dst = freeSlot();
            emitBin(op, a, b, dst, fc);
            setLive(dst, fc);
            return true;
        }
        if (isCmpOp(op)) {
            int a = pickLiveWhere([&](const FSpec& s) { return s.range != 'B' && s.label != 'X'; });
            if (a < 0 || !inPool(slots[size_t(a)].f)) continue;
            const FSpec A = P.forests[size_t(slots[size_t(a)].f)];
            int b = R.chance(8) ? a : pickLiveWhere([&](const FSpec& s) { return s.range == A.range && s.label == A.label && s.rel == A.rel && s.dom == A.dom; });
            int fc = pickForest([&](const FSpec& s) { return s.label == 'M' && s.rel == A.rel && s.dom == A.dom; });
            if (b < 0 || fc < 0) continue;
            int dst = freeSlot();
            emitBin(op, a, b, dst, fc);
            setLive(dst, fc);
            return true;
        }
        if (op == "DIST_INC") {
            int a = pickLiveWhere([&](const FSpec& s) { return s.range == 'I' && s.label == 'M'; });
            if (a < 0) continue;
            const FSpec A = P.forests[size_t(slots[size_t(a)].f)];
            int fc = pickForest([&](const FSpec& s) { return s.range == 'I' && s.label == 'M' && s.rel == A.rel && s.dom == A.dom; });
            if (fc < 0) continue;
            int dst = freeSlot();
            emitUn(op, a, dst, fc);
            setLive(dst, fc);
            return true;
        }
        if (op == "COPY") {
            int a = pickLive();
            if (a < 0) continue;
            const FSpec A = P.forests[size_t(slots[size_t(a)].f)];
            int fc = pickForest([&](const FSpec& s) { return s.label != 'X' && s.rel == A.rel && s.dom == A.dom; });
            if (fc < 0) continue;
            int dst = freeSlot();
            emitUn(op, a, dst, fc);
            setLive(dst, fc);
            return true;
        }
        if (op.compare(0, 2, "U_") == 0) {
            int a = pickLiveWhere([&](const FSpec& s) { return s.range != 'B' && s.label != 'X'; });
            if (a < 0) continue;
            const FSpec A = P.forests[size_t(slots[size_t(a)].f)];
            int fc;
            if (op == "U_pos") fc = pickForest([&](const FSpec& s) { return s.range == 'B' && s.label == 'M' && s.rel == A.rel && s.dom == A.dom; });
            else fc = pickForest([&](const FSpec& s) { return s.range == A.range && s.label != 'X' && s.rel == A.rel && s.dom == A.dom; });
            if (fc < 0) continue;
            int dst = freeSlot();
            emitUn(op, a, dst, fc);
            setLive(dst, fc);
            return true;
        }
        if (op == "CARD_L" || op == "CARD_D" || op == "CARD_Z" || op == "MAXR" || op == "MINR") {
            int a = pickLive();
            if (a < 0) continue;
            emit({"scalar", op, num(a)});
            return true;
        }
    }
    return false;
}

void Gen::emitChurn(const std::vector<int>& pool)
{
    int r = int(R.below(100));
    if (r < 40) {
        int a = pickLive();
        if (a >= 0) { emit({"release", num(a)}); setDead(a); }
    } else if (r < 55) {
        int a = pickLive();
        if (a >= 0) { int d = freeSlot(); if (d != a) { emit({"dup", num(a), num(d)}); setLive(d, slots[size_t(a)].f, slots[size_t(a)].nonzero); } }
    } else if (r < 65) {
        int a = pickLive(), d = pickLive();
        if (a >= 0 && d >= 0 && a != d) { emit({"assign", num(a), num(d)}); setLive(d, slots[size_t(a)].f, slots[size_t(a)].nonzero); }
    } else if (r < 80) {
        emit({"clearct", num(pool[R.below(uint32_t(pool.size()))])});
    } else if (r < 90) {
        emit({"stales"});
    } else {
        int a = pickLive();
        if (a >= 0) emit({"temps", num(a), num(R.chance(20) ? 300 : R.range(1, 5))});
    }
}

} // namespace mv
