// gen_misc.cc -- generators for reordering (C13), exchange files (C14), index sets (C15)
#include "gen.h"

namespace mv {

// ---------------------------------------------------------------------------------------
// C15
// ---------------------------------------------------------------------------------------
Program genC15(Rand& R, int tier)
{
    Gen G(R, tier, "C15");
    int d = G.addDomain(false, 5);
    std::vector<int> pool;
    pool.push_back(G.addForest(G.forestSpec(d, false, 'B', 'M', "FQ"[R.below(2)], R.chance(50))));
    if (R.chance(40)) pool.push_back(G.addForest(G.forestSpec(d, false, 'B', 'M', "FQ"[R.below(2)], R.chance(50))));
    FSpec X = G.forestSpec(d, false, 'I', 'X', 'F', R.chance(50));
    int fx = G.addForest(X);
    int n = R.range(1, tier ? 8 : 5);
    for (int i = 0; i < n; i++) {
        int f = pool[R.below(uint32_t(pool.size()))];
        int r = int(R.below(100));
        int a = G.pickLive();
        if (r < 8) { G.emit({"coll", Gen::num(i), Gen::num(f), "max", "0"}); G.setLive(i, f); }          // empty set
        else if (r < 16) { G.emit({"const", Gen::num(i), Gen::num(f), "1"}); G.setLive(i, f); }          // full set
        else if (r < 40 && a >= 0) G.emitOp({"UNION", "INTERSECTION", "DIFFERENCE", "COMPLEMENT"}, pool);
        else G.genCollection(i, f, 12, false);
        int src = G.pickLiveWhere([](const FSpec& s) { return s.label == 'M'; });
        if (src >= 0) {
            int dst = 8 + int(R.below(4));
            G.emit({"un", "INDEXSET", Gen::num(src), Gen::num(dst), Gen::num(fx)});
            if (R.chance(20)) G.emit({"iter", Gen::num(dst)});
            if (R.chance(20)) G.emit({"scalar", "CARD_L", Gen::num(dst)});
        }
        if (R.chance(15)) G.emit({"clearct", Gen::num(f)});
    }
    if (R.chance(tier ? 12 : 6)) {
        // a set too large to enumerate (up to ~10^17 members): a product of per-variable subsets over a domain
        // of its own, checked against closed forms at sampled members / indexes (step `bigindex`)
        const int K = R.range(6, 26);
        Step b{"bigindex", R.chance(50) ? "1" : "0", Gen::num(K)};
        std::vector<int> sz;
        for (int k = 0; k < K; k++) { sz.push_back(R.range(2, 6)); b.push_back(Gen::num(sz.back())); }
        int run = 0;      // (the conversion expands runs of skipped levels without caching: keep them short)
        for (int k = 0; k < K; k++) {
            unsigned full = (1u << sz[size_t(k)]) - 1, m;
            int r = int(R.below(100));
            if (r < 25 && run >= 4) r = 50;
            run = (r < 25) ? run + 1 : 0;
            if (r < 25) m = full;                                   // unconstrained: the level can be skipped
            else if (r < 40) m = 1u << R.below(uint32_t(sz[size_t(k)]));     // one value
            else { m = unsigned(R.bits()) & full; if (!m) m = 1; }
            b.push_back(Gen::num(int(m)));
        }
        b.push_back(Gen::num(R.range(4, 24)));
        b.push_back(Gen::num(int(R.below(1000000))));
        G.emit(b);
    }
    return G.P;
}

// ---------------------------------------------------------------------------------------
// C13
// ---------------------------------------------------------------------------------------
Program genC13(Rand& R, int tier)
{
    Gen G(R, tier, "C13");
    static const std::vector<Gen::Kind> ok = {
        {false, 'B', 'M'}, {false, 'I', 'M'}, {false, 'R', 'M'}, {false, 'I', 'P'},
        {true, 'B', 'M'}, {true, 'I', 'M'}, {true, 'R', 'M'}};
    const Gen::Kind k = ok[R.below(uint32_t(ok.size()))];
    int d = G.addDomain(k.rel, k.rel ? 3 : 5, k.rel ? (tier ? 60 : 30) : 0);
    const int K = int(G.P.domains[size_t(d)].size());
    FSpec A = G.forestSpec(d, k.rel, k.range, k.label, G.randomReduction(k.rel), R.chance(40));
    A.reorder = int(R.below(8));
    A.swap = int(R.below(2));
    int fa = G.addForest(A);
    FSpec B = G.forestSpec(d, k.rel, k.range, k.label, G.randomReduction(k.rel), false);
    B.reorder = int(R.below(8));
    int fb = G.addForest(B);
    std::vector<int> pool = {fa};
    std::vector<std::string> ops;
    if (k.range == 'B') ops = {"UNION", "INTERSECTION", "DIFFERENCE", "COMPLEMENT"};
    else ops = {"PLUS", "MINUS", "MAXIMUM", "MINIMUM", "MULTIPLY"};
    int nf = R.range(2, 5);
    for (int i = 0; i < nf; i++) G.genFunction(i, fa, 12);
    G.genFunction(10, fb, 8);
    G.genFunction(11, fb, 8);
    for (int i = R.range(0, 4); i > 0; i--) G.emitOp(ops, pool);       // shared nodes, warm CT
    int rounds = R.range(1, 3);
    for (int r = 0; r < rounds; r++) {
        std::vector<int> perm;
        for (int v = 1; v <= K; v++) perm.push_back(v);
        for (int i = K; i > 1; i--) std::swap(perm[size_t(i - 1)], perm[R.below(uint32_t(i))]);
        Step s{"reorder", Gen::num(fa)};
        for (int v : perm) s.push_back(Gen::num(v));
        G.emit(s);
        for (int i = R.range(0, 4); i > 0; i--) {
            if (R.chance(25)) G.genFunction(G.freeSlot(8), fa, 10);
            else G.emitOp(ops, pool);
        }
        if (R.chance(30)) { int a = G.pickLive(fa); if (a >= 0) { G.emit({"release", Gen::num(a)}); G.setDead(a); } }
        if (R.chance(50)) {     // back to the default order
            Step b{"reorder", Gen::num(fa)};
            for (int v = 1; v <= K; v++) b.push_back(Gen::num(v));
            G.emit(b);
            G.emitOp(ops, pool);
        }
    }
    return G.P;
}

// ---------------------------------------------------------------------------------------
// C14
// ---------------------------------------------------------------------------------------
Program genC14(Rand& R, int tier)
{
    Gen G(R, tier, "C14");
    const Gen::Kind k = Gen::kinds()[R.below(uint32_t(Gen::kinds().size()))];
    int d = G.addDomain(k.rel, k.rel ? 3 : 5);
    const char red = G.randomReduction(k.rel);
    int fw = G.addForest(G.forestSpec(d, k.rel, k.range, k.label, red, R.chance(60)));
    int fr = G.addForest(G.forestSpec(d, k.rel, k.range, k.label, red, true));      // same kind, other policies
    std::vector<int> pool = {fw};
    std::vector<std::string> ops;
    if (k.range == 'B') ops = {"UNION", "INTERSECTION", "DIFFERENCE", "COMPLEMENT"};
    else ops = {"PLUS", "MINUS", "MAXIMUM", "MINIMUM"};
    int rounds = R.range(1, 3);
    for (int r = 0; r < rounds; r++) {
        int nf = R.range(0, 5);
        for (int i = 0; i < nf; i++) {
            int c = int(R.below(100));
            if (c < 15) G.genConst(i, fw);                              // terminal root
            else if (c < 40 && G.pickLive(fw) >= 0) G.emitOp(ops, pool);  // shares sub-graphs with earlier roots
            else G.genFunction(i, fw, 12);
        }
        if (k.range == 'R' && k.label == 'M' && R.chance(60)) {
            // real terminals that need 7-9 significant digits (k/4 with |k| < 2^22 is exact in the terminal encoding):
            // the file must carry them at the format's precision (11 significant digits), not at 6
            int n = R.range(2, 6);
            for (int i = 0; i < n; i++) {
                long kk = long(R.below(1u << 22)) - (R.chance(30) ? (1L << 21) : 0);
                if (R.chance(50)) kk |= 1;          // a fractional part
                G.emitMinterm(fw, int(R.below(3)), "r" + Gen::num(int(kk)));
            }
            int sl = G.freeSlot();
            G.emit({"coll", Gen::num(sl), Gen::num(fw), R.chance(50) ? "max" : "min", "r0"});
            G.setLive(sl, fw);
        }
        // the receiving forest already holds equal and unrelated nodes
        if (R.chance(50)) G.genFunction(20, fr, 10);
        Step w{"write", Gen::num(fw)};
        int nroots = R.range(0, 8);
        for (int i = 0; i < nroots; i++) { int a = G.pickLive(fw); if (a >= 0) w.push_back(Gen::num(a)); }
        G.emit(w);
        if (R.chance(30)) { int a = G.pickLive(fw); if (a >= 0) { G.emit({"release", Gen::num(a)}); G.setDead(a); } }
        int nreads = R.range(1, 3);
        for (int i = 0; i < nreads; i++) {
            int c = int(R.below(3));
            int dst0 = 24 + 9 * i;
            if (c == 0) G.emit({"read", "same", Gen::num(fw), Gen::num(dst0)});
            else if (c == 1) G.emit({"read", "forest", Gen::num(fr), Gen::num(dst0)});
            else G.emit({"read", "domain", "0", Gen::num(dst0)});
        }
        if (R.chance(30)) G.emit({"clearct", Gen::num(fw)});
    }
    return G.P;
}

} // namespace mv
