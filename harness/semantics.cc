// semantics.cc -- reference (scalar, pointwise) semantics of the operation catalogue
#include "interp.h"
#include <cmath>

using namespace MEDDLY;

namespace mv {

static const long INT_LIMIT = 1L << 29;     // keep MT-int terminals well inside +-2^30
static const double REAL_LIMIT = 1e6;       // keep float arithmetic well-conditioned

// ---------------------------------------------------------------------------------------
// user-defined unary maps (fixed menu)
// ---------------------------------------------------------------------------------------
static void um_inc(const rangeval& x, rangeval& y)
{
    if (x.isPlusInfinity()) { y = x; return; }
    if (x.isInteger()) y = long(x) + 1; else y = double(x) + 1.0;
}
static void um_dbl(const rangeval& x, rangeval& y)
{
    if (x.isPlusInfinity()) { y = x; return; }
    if (x.isInteger()) y = 2 * long(x); else y = 2.0 * double(x);
}
static void um_sqm7(const rangeval& x, rangeval& y)
{
    if (x.isPlusInfinity()) { y = long(3); return; }
    if (x.isInteger()) { long v = long(x); y = (v * v) % 7; }
    else { double v = double(x); y = std::fmod(v * v, 7.0); }
}
static void um_pos(const rangeval& x, rangeval& y)      // boolean result
{
    if (x.isPlusInfinity()) { y = true; return; }
    if (x.isInteger()) y = (long(x) > 0); else y = (double(x) > 0);
}
static void um_c3(const rangeval& x, rangeval& y)
{
    if (x.isInteger()) y = long(3); else y = 3.0;
}
static void um_neg(const rangeval& x, rangeval& y)
{
    if (x.isPlusInfinity()) { y = x; return; }
    if (x.isInteger()) y = -long(x); else y = -double(x);
}

static user_unary_factory& UF(const std::string& op)
{
    static user_unary_factory f_inc("U_inc", um_inc), f_dbl("U_dbl", um_dbl), f_sqm7("U_sqm7", um_sqm7),
        f_pos("U_pos", um_pos), f_c3("U_c3", um_c3), f_neg("U_neg", um_neg);
    if (op == "U_inc") return f_inc;
    if (op == "U_dbl") return f_dbl;
    if (op == "U_sqm7") return f_sqm7;
    if (op == "U_pos") return f_pos;
    if (op == "U_c3") return f_c3;
    return f_neg;
}

bool userMap(const std::string& op, const Val& x, char resRange, Val& y)
{
    user_defined_unary fn = UF(op).getFunc();
    rangeval in;
    if (x.t == VINF) in = rangeval(range_special::PLUS_INFINITY, range_type::INTEGER);
    else if (x.t == VR) in = rangeval(x.d);
    else in = rangeval(x.i);
    rangeval out;
    fn(in, out);
    y = fromRangeval(out);
    (void) resRange;
    return true;
}

unary_factory* unaryFactory(const std::string& op)
{
    if (op == "COPY") return &COPY();
    if (op == "COMPLEMENT") return &COMPLEMENT();
    if (op == "DIST_INC") return &DIST_INC();
    if (op == "INDEXSET") return &CONVERT_TO_INDEX_SET();
    if (op.compare(0, 2, "U_") == 0) return &UF(op);
    return nullptr;
}

binary_factory* binaryFactory(const std::string& op)
{
    if (op == "UNION") return &UNION();
    if (op == "INTERSECTION") return &INTERSECTION();
    if (op == "DIFFERENCE") return &DIFFERENCE();
    if (op == "CROSS") return &CROSS();
    if (op == "PLUS") return &PLUS();
    if (op == "MINUS") return &MINUS();
    if (op == "MULTIPLY") return &MULTIPLY();
    if (op == "DIVIDE") return &DIVIDE();
    if (op == "MODULO") return &MODULO();
    if (op == "MAXIMUM") return &MAXIMUM();
    if (op == "MINIMUM") return &MINIMUM();
    if (op == "DIST_MIN") return &DIST_MIN();
    if (op == "EQUAL") return &EQUAL();
    if (op == "NOT_EQUAL") return &NOT_EQUAL();
    if (op == "LESS_THAN") return &LESS_THAN();
    if (op == "LESS_THAN_EQUAL") return &LESS_THAN_EQUAL();
    if (op == "GREATER_THAN") return &GREATER_THAN();
    if (op == "GREATER_THAN_EQUAL") return &GREATER_THAN_EQUAL();
    return nullptr;
}

// ---------------------------------------------------------------------------------------
// COPY conversion
// ---------------------------------------------------------------------------------------
Val convertVal(const Val& v, const FSpec& from, const FSpec& to)
{
    const bool toEVP = (to.label == 'P' || to.label == 'X');
    if (v.t == VUN) return v;
    if (v.t == VINF) {
        // EV+ infinity: preserved by EV+ targets; undocumented otherwise
        if (toEVP) return Val::Inf();
        return Val::Un();
    }
    switch (to.range) {
        case 'B': return Val::I(v.num() != 0 ? 1 : 0);
        case 'I':
            if (v.t == VR && from.label == 'T') {
                // EV* values are products of float edge values; the library's float product and
                // the harness' product may fall on different sides of an integer, and truncation
                // is discontinuous there
                double n = std::nearbyint(v.d);
                if (std::fabs(v.d - n) <= 1e-4 * (1.0 + std::fabs(n))) return Val::Un();
            }
            return Val::I(v.t == VR ? long(v.d) : v.i);
        default:  return Val::R(v.num());
    }
}

// ---------------------------------------------------------------------------------------
// unary
// ---------------------------------------------------------------------------------------
static bool inRange(const Val& v, char range)
{
    if (v.t == VINF || v.t == VUN) return true;
    if (range == 'R') return std::fabs(v.num()) <= REAL_LIMIT;
    if (range == 'I') return std::labs(v.i) <= INT_LIMIT;
    return true;
}

ModelRes modelUnary(const World& W, const std::string& op, int fa, const Table& A, int fc)
{
    ModelRes M;
    const FSpec& SA = W.fs[fa];
    const FSpec& SC = W.fs[fc];
    M.T.resize(A.size());
    if (op == "COPY") {
        if (SC.label == 'X') { M.defined = false; M.skipwhy = "copy-into-indexset"; return M; }
        for (size_t i = 0; i < A.size(); i++) M.T[i] = convertVal(A[i], SA, SC);
    } else if (op == "COMPLEMENT") {
        if (SA.range != 'B' || SC.range != 'B' || SA.label != 'M' || SC.label != 'M') { M.defined = false; M.skipwhy = "complement-nonbool"; return M; }
        for (size_t i = 0; i < A.size(); i++) M.T[i] = A[i].isUn() ? A[i] : Val::I(A[i].i ? 0 : 1);
    } else if (op == "DIST_INC") {
        if (SA.range != 'I' || SC.range != 'I' || SA.label != 'M' || SC.label != 'M') { M.defined = false; M.skipwhy = "distinc-type"; return M; }
        for (size_t i = 0; i < A.size(); i++) M.T[i] = A[i].isUn() ? A[i] : Val::I(A[i].i >= 0 ? A[i].i + 1 : A[i].i);
    } else if (op.compare(0, 2, "U_") == 0) {
        if (SC.label == 'X' || SA.label == 'X') { M.defined = false; M.skipwhy = "usermap-indexset"; return M; }
        // x*x mod 7 amplifies the float rounding of real-valued forests beyond any stated tolerance
        if (op == "U_sqm7" && SA.range == 'R') { M.defined = false; M.skipwhy = "usermap-highgain-real"; return M; }
        for (size_t i = 0; i < A.size(); i++) {
            if (A[i].isUn()) { M.T[i] = A[i]; continue; }
            Val y;
            userMap(op, A[i], SC.range, y);
            // the map's result type must be the result forest's range type
            bool isboolmap = (op == "U_pos");
            if (isboolmap != (SC.range == 'B')) { M.defined = false; M.skipwhy = "usermap-range"; return M; }
            if (!isboolmap) {
                if ((SC.range == 'R') != (SA.range == 'R')) { M.defined = false; M.skipwhy = "usermap-range"; return M; }
                if (SA.range == 'B') { M.defined = false; M.skipwhy = "usermap-range"; return M; }
            } else if (SA.range == 'B') { M.defined = false; M.skipwhy = "usermap-range"; return M; }
            if (y.t == VINF && !(SC.label == 'P')) { M.defined = false; M.skipwhy = "usermap-inf"; return M; }
            M.T[i] = y;
        }
    } else {
        M.defined = false; M.skipwhy = "unknown-unary";
        return M;
    }
    for (auto& v : M.T) if (!inRange(v, SC.range)) { M.defined = false; M.skipwhy = "range-limit"; return M; }
    return M;
}

// ---------------------------------------------------------------------------------------
// binary
// ---------------------------------------------------------------------------------------
static bool isArith(const std::string& op)
{
    return op == "PLUS" || op == "MINUS" || op == "MULTIPLY" || op == "DIVIDE" || op == "MODULO"
        || op == "MAXIMUM" || op == "MINIMUM";
}
static bool isCompare(const std::string& op)
{
    return op == "EQUAL" || op == "NOT_EQUAL" || op == "LESS_THAN" || op == "LESS_THAN_EQUAL"
        || op == "GREATER_THAN" || op == "GREATER_THAN_EQUAL";
}

ModelRes modelBinary(const World& W, const std::string& op, int fa, const Table& A, int fb,
                     const Table& B, int fc, bool strict)
{
    ModelRes M;
    const FSpec& SA = W.fs[fa];
    const FSpec& SB = W.fs[fb];
    const FSpec& SC = W.fs[fc];
    auto undef = [&](const char* why) { M.defined = false; M.skipwhy = why; return M; };

    if (op == "CROSS") {
        if (SA.rel || SB.rel || !SC.rel) return undef("cross-shape");
        if (SA.range != 'B' || SB.range != 'B' || SC.range != 'B') return undef("cross-nonbool");
        if (SA.label != 'M' || SB.label != 'M' || SC.label != 'M') return undef("cross-nonmt");
        const long n = long(A.size());
        M.T.resize(size_t(n * n));
        for (long x = 0; x < n; x++) for (long y = 0; y < n; y++) {
            if (A[x].isUn() || B[y].isUn()) M.T[size_t(x * n + y)] = Val::Un();
            else M.T[size_t(x * n + y)] = Val::I((A[x].i && B[y].i) ? 1 : 0);
        }
        return M;
    }
    if (A.size() != B.size()) return undef("shape");
    M.T.resize(A.size());

    if (op == "UNION" || op == "INTERSECTION" || op == "DIFFERENCE") {
        if (SA.range != 'B' || SB.range != 'B' || SC.range != 'B') return undef("setop-nonbool");
        if (SA.label != 'M' || SB.label != 'M' || SC.label != 'M') return undef("setop-nonmt");
        for (size_t i = 0; i < A.size(); i++) {
            if (A[i].isUn() || B[i].isUn()) { M.T[i] = Val::Un(); continue; }
            bool a = A[i].i != 0, b = B[i].i != 0;
            bool c = op == "UNION" ? (a || b) : op == "INTERSECTION" ? (a && b) : (a && !b);
            M.T[i] = Val::I(c ? 1 : 0);
        }
        return M;
    }

    if (op == "DIST_MIN") {
        if (SA.label != 'M' || SB.label != 'M' || SC.label != 'M') return undef("distmin-nonmt");
        if (SA.range == 'B' || SA.range != SB.range || SA.range != SC.range) return undef("distmin-range");
        for (size_t i = 0; i < A.size(); i++) {
            if (A[i].isUn() || B[i].isUn()) { M.T[i] = Val::Un(); continue; }
            double a = A[i].num(), b = B[i].num();
            bool na = a < 0, nb = b < 0;
            const Val& r = (na == nb) ? (a <= b ? A[i] : B[i]) : (na ? B[i] : A[i]);
            M.T[i] = r;
        }
        return M;
    }

    if (isArith(op)) {
        if (SA.label != SB.label || SA.label != SC.label) return undef("arith-label");
        if (SA.range != SB.range || SA.range != SC.range) return undef("arith-range");
        if (SA.range == 'B' || SA.label == 'X') return undef("arith-bool");
        if (op == "MODULO" && SA.range != 'I') return undef("mod-real");
        const bool evp = SA.label == 'P';
        const bool real = SA.range == 'R';
        bool needDivZero = false, proneDivZero = false, needSubInf = false, needInfInf = false, infMinusInf = false, unspecOperand = false;
        // a zero divisor met where the dividend is zero too can be absorbed by the library's
        // 0/x, x/x shortcuts (known finding): only asserted in strict mode
        auto divz = [&](const Val& a) { if (!a.isInf() && a.num() == 0) proneDivZero = true; else needDivZero = true; };
        for (size_t i = 0; i < A.size(); i++) {
            const Val &a = A[i], &b = B[i];
            if (a.isUn() || b.isUn()) { M.T[i] = Val::Un(); unspecOperand = true; continue; }
            if (a.isInf() || b.isInf()) {
                if (!evp) return undef("inf-outside-evplus");
                Val r = Val::Un();
                if (op == "PLUS") r = Val::Inf();
                else if (op == "MAXIMUM") r = Val::Inf();
                else if (op == "MINIMUM") r = a.isInf() ? b : a;
                else if (op == "MULTIPLY") {
                    // inf * x for x > 0 is inf; inf*0, inf*negative undocumented
                    const Val& o = a.isInf() ? b : a;
                    if (o.isInf() || o.i > 0) r = Val::Inf(); else r = Val::Un();
                } else if (op == "MINUS") {
                    if (b.isInf() && !a.isInf()) { needSubInf = true; r = Val::Un(); }
                    else if (a.isInf() && !b.isInf()) r = Val::Inf();
                    else { r = Val::Un(); infMinusInf = true; }       // inf - inf: undocumented
                } else if (op == "DIVIDE") {
                    if (a.isInf() && b.isInf()) { needInfInf = true; r = Val::Un(); }
                    else if (b.isInf()) r = Val::I(0);
                    else if (b.i == 0) { divz(a); r = Val::Un(); }
                    else r = Val::Inf();
                } else if (op == "MODULO") {
                    if (a.isInf() && b.isInf()) { needInfInf = true; r = Val::Un(); }
                    else if (!a.isInf() && b.isInf()) r = Val::Un();     // x mod inf: undocumented
                    else if (b.i == 0) { divz(a); r = Val::Un(); }
                    else r = Val::Un();                                 // inf mod x: undocumented
                }
                M.T[i] = r;
                continue;
            }
            if (real) {
                double x = a.num(), y = b.num(), r = 0;
                if (op == "PLUS") r = x + y;
                else if (op == "MINUS") r = x - y;
                else if (op == "MULTIPLY") r = x * y;
                else if (op == "DIVIDE") { if (y == 0) { divz(a); M.T[i] = Val::Un(); continue; } r = x / y; }
                else if (op == "MAXIMUM") r = x > y ? x : y;
                else r = x < y ? x : y;
                M.T[i] = Val::R(r);
                if (op == "PLUS" || op == "MINUS") M.T[i].s = std::fabs(x) > std::fabs(y) ? std::fabs(x) : std::fabs(y);
            } else {
                long x = a.i, y = b.i, r = 0;
                if (op == "PLUS") r = x + y;
                else if (op == "MINUS") r = x - y;
                else if (op == "MULTIPLY") r = x * y;
                else if (op == "DIVIDE") { if (y == 0) { divz(a); M.T[i] = Val::Un(); continue; } r = x / y; }
                else if (op == "MODULO") { if (y == 0) { divz(a); M.T[i] = Val::Un(); continue; } r = x % y; }
                else if (op == "MAXIMUM") r = x > y ? x : y;
                else r = x < y ? x : y;
                M.T[i] = Val::I(r);
            }
        }
        if (needDivZero) M.mustThrow.push_back(int(error::DIVIDE_BY_ZERO));
        if (needSubInf) M.mustThrow.push_back(int(error::SUBTRACT_INFINITY));
        if (proneDivZero) { (strict ? M.mustThrow : M.mayThrow).push_back(int(error::DIVIDE_BY_ZERO)); M.proneErrors++; }
        if (needInfInf) { (strict ? M.mustThrow : M.mayThrow).push_back(int(error::INFINITY_DIV_INFINITY)); M.proneErrors++; }
        if (infMinusInf) M.mayThrow.push_back(int(error::SUBTRACT_INFINITY));
        if (unspecOperand) {
            M.mayThrow.push_back(int(error::DIVIDE_BY_ZERO));
            M.mayThrow.push_back(int(error::SUBTRACT_INFINITY));
            M.mayThrow.push_back(int(error::INFINITY_DIV_INFINITY));
        }
        for (auto& v : M.T) if (!inRange(v, SC.range)) return undef("range-limit");
        return M;
    }

    if (isCompare(op)) {
        if (SA.label != SB.label) return undef("cmp-label");
        if (SA.range != SB.range) return undef("cmp-range");
        if (SA.range == 'B' || SA.label == 'X' || SC.label != 'M') return undef("cmp-type");
        const bool real = SA.range == 'R';
        for (size_t i = 0; i < A.size(); i++) {
            const Val &a = A[i], &b = B[i];
            if (a.isUn() || b.isUn()) { M.T[i] = Val::Un(); continue; }
            int c;      // sign of a-b
            if (a.isInf() || b.isInf()) c = (a.isInf() && b.isInf()) ? 0 : (a.isInf() ? 1 : -1);
            else if (real) {
                double x = a.num(), y = b.num();
                double tol = 10 * (1e-5 + 1e-5 * std::fabs(y));
                if (x != y && std::fabs(x - y) <= tol) { M.T[i] = Val::Un(); continue; }   // too close to call
                // EV*: a value is a product of float edge values, and the comparison multiplies them in
                // another order than evaluate() does; two different edges whose values evaluate to the same
                // non-zero number may still differ in the last bit inside the operation
                if (SA.label == 'T' && x == y && x != 0.0 && &A != &B) { M.T[i] = Val::Un(); continue; }
                c = x < y ? -1 : (x > y ? 1 : 0);
            } else c = a.i < b.i ? -1 : (a.i > b.i ? 1 : 0);
            bool r = op == "EQUAL" ? c == 0 : op == "NOT_EQUAL" ? c != 0 : op == "LESS_THAN" ? c < 0
                   : op == "LESS_THAN_EQUAL" ? c <= 0 : op == "GREATER_THAN" ? c > 0 : c >= 0;
            M.T[i] = SC.range == 'R' ? Val::R(r ? 1.0 : 0.0) : Val::I(r ? 1 : 0);
        }
        return M;
    }
    return undef("unknown-binary");
}

} // namespace mv
