// gen_reach.cc -- generators for reachability (C08), images / vector-matrix products (C09) and
// partitioned-relation saturation (C20)
#include "gen.h"

namespace mv {

namespace {

// one event: 1-3 touched variables (guard -> new value), the others unchanged
void emitEventMinterm(Gen& G, int frel)
{
    Rand& R = G.R;
    const FSpec& S = G.P.forests[size_t(frel)];
    const std::vector<int>& sz = G.P.domains[size_t(S.dom)];
    const int K = int(sz.size());
    std::vector<int> from(size_t(K), -1), to(size_t(K), -2);
    int touched = R.range(1, K < 3 ? K : 3);
    for (int t = 0; t < touched; t++) {
        int v = int(R.below(uint32_t(K)));
        int a = R.chance(85) ? int(R.below(uint32_t(sz[size_t(v)]))) : -1;
        int b = int(R.below(uint32_t(sz[size_t(v)])));
        if (a >= 0 && R.chance(60)) b = (a + 1 + int(R.below(uint32_t(sz[size_t(v)] - 1)))) % sz[size_t(v)];   // really change it
        from[size_t(v)] = a; to[size_t(v)] = b;
    }
    if (R.chance(6)) for (int v = 0; v < K; v++) if (to[size_t(v)] == -2 && R.chance(50)) { from[size_t(v)] = -1; to[size_t(v)] = -1; }   // a "reset anything" variable
    Step s{"mt"};
    for (int x : from) s.push_back(Gen::num(x));
    for (int x : to) s.push_back(Gen::num(x));
    s.push_back("1");
    G.emit(s);
}

int emitEvent(Gen& G, int frel, int slot, bool single = false)
{
    int n = (single || G.R.chance(75)) ? 1 : G.R.range(2, 3);
    for (int i = 0; i < n; i++) emitEventMinterm(G, frel);
    G.emit({"coll", Gen::num(slot), Gen::num(frel), "max", "0"});
    G.setLive(slot, frel);
    return slot;
}

// a family of "guard only" events on one variable v: each keeps v at one of its values (a -> a) and applies
// one common change to lower variables.  When the family covers every value of v, the union of the events is
// the identity on v, so in an identity-reduced forest the relation kept for v's level is rooted *below* that
// level (or is the terminal identity when nothing lower changes) -- the shape by-levels bookkeeping must cope with.
int emitGuardFamily(Gen& G, int frel, std::vector<int>& ev, int slot, int maxSlot)
{
    Rand& R = G.R;
    const FSpec& S = G.P.forests[size_t(frel)];
    const std::vector<int>& sz = G.P.domains[size_t(S.dom)];
    const int K = int(sz.size());
    const int v = K - 1 - int(R.below(uint32_t(K < 2 ? 1 : 2)));
    std::vector<int> from(size_t(K), -1), to(size_t(K), -2);
    if (v > 0 && R.chance(75)) {
        int touched = R.range(1, v < 2 ? 1 : 2);
        for (int t = 0; t < touched; t++) {
            int u = int(R.below(uint32_t(v)));
            int a = R.chance(80) ? int(R.below(uint32_t(sz[size_t(u)]))) : -1;
            from[size_t(u)] = a; to[size_t(u)] = int(R.below(uint32_t(sz[size_t(u)])));
        }
    }
    const int skip = R.chance(25) ? int(R.below(uint32_t(sz[size_t(v)]))) : -1;
    int a = 0;
    while (a < sz[size_t(v)] && slot < maxSlot) {
        int inThis = (maxSlot - slot) * 2 < sz[size_t(v)] - a ? sz[size_t(v)] - a : R.range(1, 2);
        int emitted = 0;
        for (; inThis > 0 && a < sz[size_t(v)]; a++, inThis--) {
            if (a == skip) continue;
            from[size_t(v)] = a; to[size_t(v)] = a;
            Step s{"mt"};
            for (int x : from) s.push_back(Gen::num(x));
            for (int x : to) s.push_back(Gen::num(x));
            s.push_back("1");
            G.emit(s);
            emitted++;
        }
        if (!emitted) continue;
        G.emit({"coll", Gen::num(slot), Gen::num(frel), "max", "0"});
        G.setLive(slot, frel);
        ev.push_back(slot++);
    }
    return slot;
}

// union of event slots into slot dst (forest frel)
void emitUnion(Gen& G, const std::vector<int>& ev, int dst, int frel)
{
    if (ev.size() == 1) { G.emit({"dup", Gen::num(ev[0]), Gen::num(dst)}); G.setLive(dst, frel); return; }
    int acc = ev[0];
    for (size_t i = 1; i < ev.size(); i++) {
        G.emit({"bin", "UNION", Gen::num(acc), Gen::num(ev[i]), Gen::num(dst), Gen::num(frel)});
        acc = dst;
    }
    G.setLive(dst, frel);
}

// initial set: value 0 / true on 1-4 states, unreachable elsewhere
void emitInitial(Gen& G, int fset, int slot, int maxStates = 4, int maxDist = 0)
{
    Rand& R = G.R;
    const FSpec& S = G.P.forests[size_t(fset)];
    int n = R.range(1, maxStates);
    for (int i = 0; i < n; i++) {
        std::string val = S.range == 'B' ? "1" : Gen::num(maxDist ? R.range(0, maxDist) : 0);
        G.emitMinterm(fset, R.chance(85) ? 0 : 1, val);
    }
    if (S.range == 'B') G.emit({"coll", Gen::num(slot), Gen::num(fset), "max", "0"});
    else if (S.label == 'P') G.emit({"coll", Gen::num(slot), Gen::num(fset), "min", "inf"});
    else G.emit({"coll", Gen::num(slot), Gen::num(fset), "max", "-1"});
    G.setLive(slot, fset);
}

struct SetChoice { char range, label; };
const SetChoice SETKINDS[3] = {{'B', 'M'}, {'I', 'M'}, {'I', 'P'}};

} // namespace

Program genC08(Rand& R, int tier)
{
    Gen G(R, tier, "C08");
    G.randomCt(R.chance(30));
    int d = G.addDomain(true, 4, tier ? 80 : 36);
    const SetChoice sk = SETKINDS[R.below(3)];
    char sred = (sk.range == 'I' && sk.label == 'M') ? (R.chance(80) ? 'F' : 'Q') : "FQ"[R.below(2)];
    int fset = G.addForest(G.forestSpec(d, false, sk.range, sk.label, sred, R.chance(40)));
    int fres = R.chance(75) ? fset : G.addForest(G.forestSpec(d, false, sk.range, sk.label, "FQ"[R.below(2)], R.chance(40)));
    char rred = R.chance(60) ? 'I' : "FQ"[R.below(2)];
    int frel = G.addForest(G.forestSpec(d, true, 'B', 'M', rred, R.chance(40)));
    // slots: 0..7 events, 8 relation, 9 initial, 10.. results
    int rounds = R.range(1, tier ? 5 : 3);
    int nextRes = 10;
    for (int r = 0; r < rounds; r++) {
        if (r == 0 || R.chance(70)) {
            int ne = R.range(1, 6);
            std::vector<int> ev;
            int next = 0;
            if (R.chance(20)) next = emitGuardFamily(G, frel, ev, next, 5);
            for (int i = 0; i < ne && next < 8; i++) ev.push_back(emitEvent(G, frel, next++));
            emitUnion(G, ev, 8, frel);
        }
        if (r == 0 || R.chance(60)) emitInitial(G, fset, 9);
        const bool fwd = R.chance(65);
        static const char* ALGS[3] = {"TRAD_FS", "TRAD_NOFS", "SATUR"};
        int mask = 1 + int(R.below(7));
        for (int a = 0; a < 3; a++) if (mask & (1 << a)) {
            int dst = nextRes++; if (nextRes > 15) nextRes = 10;
            Step st{"reach", ALGS[a], fwd ? "1" : "0", "9", "8", Gen::num(dst), Gen::num(fres)};
            if (fres == fset && R.chance(12)) st.push_back("inplace");
            G.emit(st);
            G.setLive(dst, fres);
        }
        if (R.chance(25)) G.emit({"clearct", Gen::num(R.chance(50) ? fset : frel)});
        if (R.chance(15)) { int v = 10 + int(R.below(6)); G.emit({"release", Gen::num(v)}); }
    }
    return G.P;
}

Program genC09(Rand& R, int tier)
{
    Gen G(R, tier, "C09");
    int d = G.addDomain(true, 4, tier ? 80 : 36);
    if (R.chance(65)) {
        // one-step images
        const SetChoice sk = SETKINDS[R.below(3)];
        const bool mtint = (sk.range == 'I' && sk.label == 'M');
        const bool allowQ = true;        // (quasi-reduced MT-int distance sets included: their transparent 0 is a proper distance)
        (void) mtint;
        char sred = allowQ ? "FQ"[R.below(2)] : 'F';
        int fset = G.addForest(G.forestSpec(d, false, sk.range, sk.label, sred, R.chance(40)));
        int fres = R.chance(70) ? fset : G.addForest(G.forestSpec(d, false, sk.range, sk.label, allowQ ? "FQ"[R.below(2)] : 'F', false));
        int frel = G.addForest(G.forestSpec(d, true, 'B', 'M', "FQI"[R.below(3)], R.chance(40)));
        int rounds = R.range(1, 4);
        for (int r = 0; r < rounds; r++) {
            if (r == 0 || R.chance(60)) {
                int ne = R.range(1, 6);
                std::vector<int> ev;
                for (int i = 0; i < ne; i++) ev.push_back(emitEvent(G, frel, i));
                emitUnion(G, ev, 8, frel);
                if (R.chance(25)) {     // a relation that is not made of events: arbitrary pairs
                    G.genCollection(7, frel, 10, false);
                    G.emit({"bin", "UNION", "8", "7", "8", Gen::num(frel)});
                }
                if (R.chance(5)) { G.emit({"coll", "8", Gen::num(frel), "max", "0"}); G.setLive(8, frel); }   // the empty relation
                // the all-unreachable function built directly: the image under the empty relation must be this edge
                if (R.chance(10)) {
                    if (sk.range == 'B') G.emit({"const", "16", Gen::num(fres), "0"});
                    else if (sk.label == 'P') G.emit({"const", "16", Gen::num(fres), "inf"});
                    else G.emit({"const", "16", Gen::num(fres), "-1"});
                    G.setLive(16, fres);
                }
            }
            if (r == 0 || R.chance(60)) emitInitial(G, fset, 9, 6, sk.range == 'B' ? 0 : 5);
            int steps = R.range(1, 4);
            int cur = 9;
            for (int i = 0; i < steps; i++) {
                int dst = 10 + i;
                Step st{"image", R.chance(55) ? "POST" : "PRE", Gen::num(cur), "8", Gen::num(dst), Gen::num(fres)};
                if (fres == fset && R.chance(12)) st.push_back("inplace");
                G.emit(st);
                G.setLive(dst, fres);
                if (fres == fset && R.chance(50)) cur = dst;     // iterate on the image
            }
        }
    } else {
        // vector-matrix products
        const char range = R.chance(60) ? 'I' : 'R';
        int fvec = G.addForest(G.forestSpec(d, false, range, 'M', "FQ"[R.below(2)], R.chance(40)));
        int fres = R.chance(60) ? fvec : G.addForest(G.forestSpec(d, false, range, 'M', "FQ"[R.below(2)], false));
        int fmat = G.addForest(G.forestSpec(d, true, range, 'M', "FQI"[R.below(3)], R.chance(40)));
        int rounds = R.range(1, 4);
        for (int r = 0; r < rounds; r++) {
            G.genFunction(0, fvec, 8);
            G.genFunction(1, fmat, 10);
            Step st{"vm", R.chance(50) ? "VM" : "MV", "0", "1", Gen::num(2 + r), Gen::num(fres)};
            if (fres == fvec && R.chance(12)) st.push_back("inplace");
            G.emit(st);
            G.setLive(2 + r, fres);
            if (fres == fvec && R.chance(40)) { G.emit({"vm", R.chance(50) ? "VM" : "MV", Gen::num(2 + r), "1", "8", Gen::num(fres)}); G.setLive(8, fres); }
        }
    }
    return G.P;
}

Program genC20(Rand& R, int tier)
{
    Gen G(R, tier, "C20");
    int d = G.addDomain(true, 4, tier ? 80 : 36);
    int fset = G.addForest(G.forestSpec(d, false, 'B', 'M', R.chance(80) ? 'F' : 'Q', R.chance(40)));
    int frel = G.addForest(G.forestSpec(d, true, 'B', 'M', 'I', R.chance(40)));
    static const char* SPLITS[5] = {"None", "SplitOnly", "SplitSubtract", "SplitSubtractAll", "MonolithicSplit"};
    int rounds = R.range(1, tier ? 4 : 2);
    for (int r = 0; r < rounds; r++) {
        int ne = R.range(1, 8);
        std::vector<int> ev;
        int next = 0;
        if (R.chance(35)) next = emitGuardFamily(G, frel, ev, next, R.chance(50) ? 8 : 5);
        for (int i = 0; i < ne && next < 8; i++) ev.push_back(emitEvent(G, frel, next++, getenv("MVH_SINGLE") != nullptr));
        emitUnion(G, ev, 8, frel);
        emitInitial(G, fset, 9);
        int variants = R.range(1, 3);
        for (int v = 0; v < variants; v++) {
            for (int sl : ev) G.emit({"event", Gen::num(sl)});
            const bool byLevels = R.chance(50);
            // forward only: it is what the property quantifies over (SATURATION_BACKWARD crashes on
            // the first call on the unchanged tree -- sparse accessors on a full unpacked node in
            // bckwd_dfs_by_events_mt::saturateHelper -- recorded in DESIGN.md, outside C20)
            Step st{"pregen", byLevels ? "bylevels" : "byevents", SPLITS[R.below(5)], "1", "9", Gen::num(10 + v), Gen::num(fset)};
            if (R.chance(12)) st.push_back("inplace");
            if (R.chance(30)) st.push_back("again");
            G.emit(st);
            G.setLive(10 + v, fset);
        }
        G.emit({"reach", R.chance(50) ? "TRAD_NOFS" : "SATUR", "1", "9", "8", "14", Gen::num(fset)});
        G.setLive(14, fset);
        if (R.chance(20)) G.emit({"clearct", Gen::num(fset)});
    }
    return G.P;
}

} // namespace mv
