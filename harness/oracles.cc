// oracles.cc -- O1 evaluate, O2 independent expansion, O3 audit, O4 recount, O5 cache recount
#include "mv.h"
#include <algorithm>
#include <cmath>

using namespace MEDDLY;

namespace mv {

static std::string pointText(World& W, int f, long idx)
{
    std::vector<int> from, to;
    W.decode(f, idx, from, to);
    std::ostringstream o;
    o << "(";
    for (size_t v = 1; v < from.size(); v++) o << (v > 1 ? "," : "") << from[v];
    if (W.fs[f].rel) {
        o << " -> ";
        for (size_t v = 1; v < to.size(); v++) o << (v > 1 ? "," : "") << to[v];
    }
    o << ")";
    return o.str();
}

// ---------------------------------------------------------------------------------------
// O1
// ---------------------------------------------------------------------------------------
bool oracleEval(World& W, int f, const dd_edge& e, const Table& T, Failure& fail, long* unspec)
{
    forest* F = W.F[f];
    const long n = W.tableSize(f);
    if (long(T.size()) != n) { fail = {"harness.tablesize", "table size mismatch"}; return false; }
    minterm m(F);
    std::vector<int> from, to;
    for (long idx = 0; idx < n; idx++) {
        if (T[idx].isUn()) { if (unspec) ++*unspec; continue; }
        W.decode(f, idx, from, to);
        W.fillMinterm(f, m, from, to);
        rangeval rv;
        try {
            e.evaluate(m, rv);
        } catch (MEDDLY::error& er) {
            fail = {"O1.evaluate-throws", std::string("evaluate threw ") + er.getName() + " at " + pointText(W, f, idx)};
            return false;
        }
        Val got = fromRangeval(rv);
        if (!sameVal(got, T[idx])) {
            fail = {"O1.model", "evaluate" + pointText(W, f, idx) + " = " + showVal(got)
                    + ", model says " + showVal(T[idx])};
            return false;
        }
    }
    return true;
}

// ---------------------------------------------------------------------------------------
// O2: independent expansion
// ---------------------------------------------------------------------------------------
namespace {
struct Expander {
    World& W; int f; forest* F; const FSpec& S; int K;
    Table& out;
    std::vector<int> from, to;      // by variable
    bool bad = false; std::string why;

    Expander(World& w, int ff, Table& o) : W(w), f(ff), F(w.F[ff]), S(w.fs[ff]), K(w.domOf(ff).K()), out(o)
    { from.assign(K + 1, 0); to.assign(K + 1, 0); }

    // accumulated edge value: EV+ long (acc), EV* double (accd)
    Val terminalValue(node_handle p, long acc, double accd)
    {
        if (S.label == 'M') {
            rangeval rv; edge_value ev;     // void edge
            F->getValueForEdge(ev, p, rv);
            return fromRangeval(rv);
        }
        if (S.label == 'P' || S.label == 'X') {
            if (p == 0) return Val::Inf();
            return Val::I(acc);
        }
        if (p == 0) return Val::R(0.0);
        return Val::R(accd);
    }

    void accumulate(const edge_value& ev, long& acc, double& accd)
    {
        if (S.label == 'P' || S.label == 'X') {
            if (ev.getType() == edge_type::LONG) acc += long(ev);
            else if (ev.getType() == edge_type::INT) acc += int(ev);
        } else if (S.label == 'T') {
            if (ev.getType() == edge_type::FLOAT) accd *= double(float(ev));
            else if (ev.getType() == edge_type::DOUBLE) accd *= double(ev);
        }
    }

    // next level below L in the interleaved order
    int down(int L) const { return S.rel ? (L > 0 ? -L : (-L) - 1) : L - 1; }

    void store(const Val& v) { out[W.encode(f, from, to)] = v; }

    // recurse at level L (0 = bottom) with edge (acc, p)
    void rec(int L, node_handle p, long acc, double accd, bool unprimedWasSkipped)
    {
        if (bad) return;
        if (L == 0) {
            if (p > 0) { bad = true; why = "nonterminal below level 1"; return; }
            store(terminalValue(p, acc, accd));
            return;
        }
        const int var = F->getVarByLevel(L > 0 ? L : -L);
        const int sz = W.domOf(f).sizes[var];
        const int plvl = (p > 0) ? F->getNodeLevel(p) : 0;
        if (p > 0 && !F->isActiveNode(p)) { bad = true; why = "edge reaches an inactive node"; return; }
        if (plvl == L) {
            unpacked_node* U = unpacked_node::newFromNode(F, p, FULL_ONLY);
            if (int(U->getSize()) != sz) { bad = true; why = "unpacked size != level size"; unpacked_node::Recycle(U); return; }
            // copy out (recursion may recycle/reuse unpacked nodes)
            std::vector<node_handle> dn(sz);
            std::vector<edge_value> evs(sz);
            for (int i = 0; i < sz; i++) { dn[i] = U->down(unsigned(i)); if (S.label != 'M') evs[i] = U->edgeval(unsigned(i)); }
            unpacked_node::Recycle(U);
            for (int i = 0; i < sz; i++) {
                if (L > 0) from[var] = i; else to[var] = i;
                long a2 = acc; double d2 = accd;
                if (S.label != 'M') accumulate(evs[i], a2, d2);
                rec(down(L), dn[i], a2, d2, false);
            }
            return;
        }
        // level L is skipped by this edge
        if (p > 0) {
            // the node must be strictly below
            int r = plvl > 0 ? 2 * plvl : -2 * plvl - 1;
            int rl = L > 0 ? 2 * L : -2 * L - 1;
            if (!S.rel) { r = plvl; rl = L; }
            if (r >= rl) { bad = true; why = "child not below parent level"; return; }
        }
        const bool identity = S.rel && S.red == 'I';
        if (identity && L < 0) {
            // skipped primed level in an identity-reduced relation: x' must equal x
            const Val tv = W.transparent(f);
            for (int i = 0; i < sz; i++) {
                to[var] = i;
                if (i == from[var]) rec(down(L), p, acc, accd, false);
                else fillBelow(down(L), tv);
            }
            return;
        }
        // don't care
        for (int i = 0; i < sz; i++) {
            if (L > 0) from[var] = i; else to[var] = i;
            rec(down(L), p, acc, accd, L > 0);
        }
    }

    void fillBelow(int L, const Val& v)
    {
        if (L == 0) { store(v); return; }
        const int var = F->getVarByLevel(L > 0 ? L : -L);
        const int sz = W.domOf(f).sizes[var];
        for (int i = 0; i < sz; i++) {
            if (L > 0) from[var] = i; else to[var] = i;
            fillBelow(down(L), v);
        }
    }
};
}

bool expandEdge(World& W, int f, const dd_edge& e, Table& out, Failure& fail)
{
    out.assign(size_t(W.tableSize(f)), Val());
    Expander X(W, f, out);
    long acc = 0; double accd = 1.0;
    const FSpec& S = W.fs[f];
    if (S.label != 'M') X.accumulate(e.getEdgeValue(), acc, accd);
    try {
        X.rec(X.K, e.getNode(), acc, accd, false);
    } catch (MEDDLY::error& er) {
        fail = {"O2.throws", std::string("expansion threw ") + er.getName()};
        return false;
    }
    if (X.bad) { fail = {"O2.structure", X.why}; return false; }
    return true;
}

bool oracleExpand(World& W, int f, const dd_edge& e, const Table& T, Failure& fail)
{
    Table got;
    if (!expandEdge(W, f, e, got, fail)) return false;
    for (size_t i = 0; i < T.size(); i++) {
        if (T[i].isUn()) continue;
        if (!sameVal(got[i], T[i])) {
            fail = {"O2.model", "expansion" + pointText(W, f, long(i)) + " = " + showVal(got[i])
                    + ", model says " + showVal(T[i])};
            return false;
        }
    }
    return true;
}

// ---------------------------------------------------------------------------------------
// helpers on nodes
// ---------------------------------------------------------------------------------------
static inline int levelRank(bool rel, int l)
{
    if (!rel) return l;
    return l > 0 ? 2 * l : (l < 0 ? -2 * l - 1 : 0);
}

std::string evBitsExact(const edge_value& ev)
{
    char buf[48];
    switch (ev.getType()) {
        case edge_type::INT: snprintf(buf, sizeof buf, "i%d", int(ev)); return buf;
        case edge_type::LONG: snprintf(buf, sizeof buf, "l%ld", long(ev)); return buf;
        case edge_type::FLOAT: { float x = float(ev); uint32_t u; memcpy(&u, &x, 4); snprintf(buf, sizeof buf, "f%08x", u); return buf; }
        case edge_type::DOUBLE: { double x = double(ev); uint64_t u; memcpy(&u, &x, 8); snprintf(buf, sizeof buf, "d%016lx", (unsigned long) u); return buf; }
        default: return "";
    }
}

long activeNodes(forest* F)
{
    long n = 0;
    for (node_handle p = 1; p <= F->getLastNode(); p++) if (F->isActiveNode(p)) n++;
    return n;
}

long reachableFromRoots(forest* F)
{
    std::vector<const dd_edge*> roots;
    F->verifVisitRoots(roots);
    std::vector<char> seen(size_t(F->getLastNode()) + 1, 0);
    std::vector<node_handle> stack;
    for (auto r : roots) if (r->getNode() > 0 && r->getNode() <= F->getLastNode() && !seen[r->getNode()]) { seen[r->getNode()] = 1; stack.push_back(r->getNode()); }
    long n = 0;
    while (!stack.empty()) {
        node_handle p = stack.back(); stack.pop_back();
        n++;
        if (!F->isActiveNode(p)) continue;
        unpacked_node* U = unpacked_node::newFromNode(F, p, SPARSE_ONLY);
        for (unsigned z = 0; z < U->getSize(); z++) {
            node_handle c = U->down(z);
            if (c > 0 && c <= F->getLastNode() && !seen[c]) { seen[c] = 1; stack.push_back(c); }
        }
        unpacked_node::Recycle(U);
    }
    return n;
}

// ---------------------------------------------------------------------------------------
// O3 structural audit
// ---------------------------------------------------------------------------------------
bool oracleAudit(World& W, int f, Failure& fail, AuditStats* st)
{
    forest* F = W.F[f];
    const FSpec& S = W.fs[f];
    const int K = W.domOf(f).K();
    const node_handle last = F->getLastNode();
    const node_handle tnode = F->getTransparentNode();
    const bool ev = S.label != 'M';
    std::map<std::string, node_handle> keys;
    std::map<int, long> perVar;
    long nactive = 0;
    char buf[256];

    auto failf = [&](const char* tag, node_handle p, const std::string& m) {
        snprintf(buf, sizeof buf, "forest %d node %ld (level %d): ", f, long(p), F->getNodeLevel(p));
        fail = {tag, std::string(buf) + m};
        return false;
    };

    try {
    for (node_handle p = 1; p <= last; p++) {
        if (!F->isActiveNode(p)) continue;
        nactive++;
        const int k = F->getNodeLevel(p);
        if (k == 0 || k > K || k < (S.rel ? -K : 1)) return failf("O3.level", p, "invalid level");
        const int var = F->getVarByLevel(k);
        perVar[var]++;
        const int lsz = W.domOf(f).sizes[k > 0 ? F->getVarByLevel(k) : -F->getVarByLevel(k)];

        unpacked_node* UF = unpacked_node::newFromNode(F, p, FULL_ONLY);
        unpacked_node* US = unpacked_node::newFromNode(F, p, SPARSE_ONLY);
        unpacked_node* UN = unpacked_node::newFromNode(F, p, FULL_OR_SPARSE);
        struct R { unpacked_node *a, *b, *c; ~R() { unpacked_node::Recycle(a); unpacked_node::Recycle(b); unpacked_node::Recycle(c); } } rel{UF, US, UN};

        if (int(UF->getSize()) != lsz) return failf("O3.size", p, "full view size != level size");
        if (st) { st->nodes++; if (UN->isSparse()) st->sparse++; else st->full++; if (lsz > st->maxsize) st->maxsize = lsz; }
        // sparse view: sorted, in range, no transparent entry
        const unsigned nnz = US->getSize();
        if (nnz == 0) return failf("O3.transparent", p, "node has no non-transparent child");
        std::string key;
        snprintf(buf, sizeof buf, "L%d:", k); key = buf;
        for (unsigned z = 0; z < nnz; z++) {
            unsigned i = US->index(z);
            if (int(i) >= lsz) return failf("O3.sparse-index", p, "sparse index out of range");
            if (z && US->index(z - 1) >= i) return failf("O3.sparse-order", p, "sparse indexes not strictly increasing");
            node_handle c = US->down(z);
            if (ev ? F->isTransparentEdge(US->edgeval(z), c) : (c == tnode))
                return failf("O3.sparse-transparent", p, "sparse view stores a transparent edge");
            if (UF->down(i) != c) return failf("O3.views", p, "full and sparse views disagree on a child");
            if (ev && !(UF->edgeval(i) == US->edgeval(z))) return failf("O3.views", p, "full and sparse views disagree on an edge value");
            snprintf(buf, sizeof buf, "%u>%ld", i, long(c)); key += buf;
            if (ev) key += evBitsExact(US->edgeval(z));
            key += ";";
        }
        // full view: everything not in sparse view is transparent
        {
            unsigned z = 0;
            for (unsigned i = 0; i < UF->getSize(); i++) {
                if (z < nnz && US->index(z) == i) { z++; continue; }
                if (UF->down(i) != tnode) return failf("O3.views", p, "full view has a child the sparse view lacks");
                if (ev && !F->isTransparentEdge(UF->edgeval(i), UF->down(i)))
                    return failf("O3.views", p, "full view has a non-transparent edge value on a transparent child");
            }
        }
        // native view must agree too
        if (UN->isSparse()) {
            if (UN->getSize() != nnz) return failf("O3.views", p, "native sparse size differs");
            for (unsigned z = 0; z < nnz; z++)
                if (UN->index(z) != US->index(z) || UN->down(z) != US->down(z)) return failf("O3.views", p, "native sparse view differs");
        } else {
            for (unsigned i = 0; i < UN->getSize(); i++)
                if (UN->down(i) != UF->down(i)) return failf("O3.views", p, "native full view differs");
        }
        // children: live and strictly below; quasi: exactly next level
        const int nextL = S.rel ? (k > 0 ? -k : (-k) - 1) : k - 1;
        bool allSame = (int(nnz) == lsz);
        for (unsigned z = 0; z < nnz; z++) {
            node_handle c = US->down(z);
            int cl = 0;
            if (c > 0) {
                if (c > last || !F->isActiveNode(c)) return failf("O3.dangling", p, "child is not a live node");
                cl = F->getNodeLevel(c);
                if (levelRank(S.rel, cl) >= levelRank(S.rel, k)) return failf("O3.order", p, "child is not strictly below its parent");
            }
            if (S.red == 'Q') {
                if (cl != nextL) return failf("O3.quasi-skip", p, "quasi-reduced forest skips a level");
            }
            if (z && (US->down(z) != US->down(0) || (ev && !(US->edgeval(z) == US->edgeval(0))))) allSame = false;
        }
        // redundancy
        if (allSame) {
            bool forbidden = (S.red == 'F') || (S.red == 'I' && k > 0);
            if (forbidden) return failf("O3.redundant", p, "redundant node where the rule forbids it");
        }
        // identity rule: illegal singleton edges
        if (S.red == 'I' && S.rel) {
            for (unsigned z = 0; z < nnz; z++) {
                node_handle c = US->down(z);
                if (c <= 0 || F->getNodeLevel(c) >= 0) continue;
                unsigned j; node_handle d;
                if (F->isSingletonNode(c, j, d)) {
                    if (k < 0 || F->getNodeLevel(c) != -k) {
                        // a singleton primed node may only be entered from the unprimed level right above
                        return failf("O3.identity-singleton", p, "edge into a singleton primed node skips its unprimed level");
                    }
                    if (j == US->index(z)) return failf("O3.identity-singleton", p, "i-th child is an i-singleton node");
                }
            }
        }
        // edge value normalisation
        if (S.label == 'P' || S.label == 'X') {
            long mn = 0; bool first = true;
            for (unsigned z = 0; z < nnz; z++) {
                long v = (US->edgeval(z).getType() == edge_type::LONG) ? long(US->edgeval(z)) : long(int(US->edgeval(z)));
                if (first || v < mn) { mn = v; first = false; }
            }
            if (mn != 0) return failf("O3.evplus-norm", p, "EV+ node: minimum edge value is not 0");
        }
        if (S.label == 'T') {
            double v0 = (US->edgeval(0).getType() == edge_type::FLOAT) ? double(float(US->edgeval(0))) : double(US->edgeval(0));
            if (v0 != 1.0) return failf("O3.evstar-norm", p, "EV* node: first edge value is not 1");
        }
        // duplicates
        auto ins = keys.insert({key, p});
        if (!ins.second) {
            snprintf(buf, sizeof buf, "same content as node %ld", long(ins.first->second));
            return failf("O3.duplicate", p, buf);
        }
        // hashes and unique table
        UF->computeHash();
        US->computeHash();
        const unsigned hp = F->hashNode(p);
        if (UF->hash() != US->hash() || UF->hash() != hp) {
            snprintf(buf, sizeof buf, "hash full=%u sparse=%u packed=%u", UF->hash(), US->hash(), hp);
            return failf("O3.hash", p, buf);
        }
        node_handle found = F->getUT()->find(*US, var);
        if (found != p) {
            snprintf(buf, sizeof buf, "unique-table lookup of own content returns %ld", long(found));
            return failf("O3.unique-find", p, buf);
        }
    }
    } catch (MEDDLY::error& er) {
        fail = {"O3.throws", std::string("audit threw ") + er.getName()};
        return false;
    }
    // counts
    const unique_table* UT = F->getUT();
    for (int v = (S.rel ? -K : 1); v <= K; v++) {
        if (v == 0) continue;
        long want = perVar.count(v) ? perVar[v] : 0;
        if (long(UT->getNumEntries(v)) != want) {
            snprintf(buf, sizeof buf, "forest %d: unique table for variable %d holds %u entries, %ld live nodes", f, v, UT->getNumEntries(v), want);
            fail = {"O3.ut-count", buf};
            return false;
        }
    }
    if (F->getCurrentNumNodes() != nactive) {
        snprintf(buf, sizeof buf, "forest %d: getCurrentNumNodes()=%ld but %ld live nodes", f, F->getCurrentNumNodes(), nactive);
        fail = {"O3.node-count", buf};
        return false;
    }
    // root edges held by the harness: normalised edge values
    for (auto& sl : W.slots) {
        if (!sl.live() || sl.f != f) continue;
        if (S.label == 'P' || S.label == 'X') {
            if (sl.e->getNode() == 0 && sl.e->getEdgeValue().getType() == edge_type::LONG && long(sl.e->getEdgeValue()) != 0) {
                fail = {"O3.root-norm", "EV+ root edge: infinity carries a non-zero edge value"};
                return false;
            }
        }
        if (S.label == 'T') {
            if (sl.e->getNode() == 0 && sl.e->getEdgeValue().getType() == edge_type::FLOAT && float(sl.e->getEdgeValue()) != 0) {
                fail = {"O3.root-norm", "EV* root edge: zero carries a non-zero edge value"};
                return false;
            }
        }
        node_handle r = sl.e->getNode();
        if (r > 0 && (r > last || !F->isActiveNode(r))) { fail = {"O3.dangling-root", "held edge points to a reclaimed node"}; return false; }
    }
    return true;
}

// ---------------------------------------------------------------------------------------
// O4 reference recount
// ---------------------------------------------------------------------------------------
bool oracleRecount(World& W, int f, Failure& fail, bool exact)
{
    forest* F = W.F[f];
    const node_handle last = F->getLastNode();
    std::vector<unsigned> cnt(size_t(last) + 1, 0);
    char buf[256];
    for (node_handle p = 1; p <= last; p++) {
        if (!F->isActiveNode(p)) continue;
        unpacked_node* U = unpacked_node::newFromNode(F, p, SPARSE_ONLY);
        for (unsigned z = 0; z < U->getSize(); z++) {
            node_handle c = U->down(z);
            if (c <= 0) continue;
            if (c > last || !F->isActiveNode(c)) {
                unpacked_node::Recycle(U);
                snprintf(buf, sizeof buf, "forest %d: live node %ld points to reclaimed node %ld", f, long(p), long(c));
                fail = {"O4.dangling", buf};
                return false;
            }
            cnt[c]++;
        }
        unpacked_node::Recycle(U);
    }
    std::vector<const dd_edge*> roots;
    F->verifVisitRoots(roots);
    for (auto r : roots) {
        node_handle c = r->getNode();
        if (c <= 0) continue;
        if (c > last || !F->isActiveNode(c)) {
            snprintf(buf, sizeof buf, "forest %d: registered edge points to reclaimed node %ld", f, long(c));
            fail = {"O4.dangling-root", buf};
            return false;
        }
        cnt[c]++;
    }
    unpacked_node::AddToIncomingCounts(F, cnt);
    const bool pess = (W.fs[f].del == 'P');
    for (node_handle p = 1; p <= last; p++) {
        if (!F->isActiveNode(p)) continue;
        unsigned long rec = F->getNodeInCount(p);
        bool bad = exact ? (rec != cnt[p]) : (rec < cnt[p]);
        if (bad) {
            snprintf(buf, sizeof buf, "forest %d node %ld: recorded incoming count %lu, actual references %u", f, long(p), rec, cnt[p]);
            fail = {exact ? "O4.count" : "O4.undercount", buf};
            return false;
        }
        if (exact && pess && rec == 0) {
            snprintf(buf, sizeof buf, "forest %d node %ld: pessimistic forest keeps an unreferenced live node", f, long(p));
            fail = {"O4.pessimistic-unreferenced", buf};
            return false;
        }
    }
    return true;
}

// ---------------------------------------------------------------------------------------
// O5 cache recount
// ---------------------------------------------------------------------------------------
bool oracleCacheCount(World& W, int f, Failure& fail)
{
    forest* F = W.F[f];
    const node_handle last = F->getLastNode();
    std::vector<unsigned long> cnt(size_t(last) + 1, 0);
    compute_table::countAllNodeEntries(F, cnt);
    char buf[256];
    for (node_handle p = 1; p <= last; p++) {
        unsigned long rec = F->verifCacheCount(p);
        if (rec != cnt[p]) {
            snprintf(buf, sizeof buf, "forest %d node %ld: cache count %lu, %lu compute-table entries mention it", f, long(p), rec, cnt[p]);
            fail = {"O5.cache-count", buf};
            return false;
        }
    }
    return true;
}

// ---------------------------------------------------------------------------------------
// canonical form / counting
// ---------------------------------------------------------------------------------------
std::string canonicalForm(World& W, int f, const dd_edge& e)
{
    forest* F = W.F[f];
    const FSpec& S = W.fs[f];
    std::map<node_handle, int> num;
    std::ostringstream out;
    // EV* edge values are floats that the library itself compares with a 1e-6 relative tolerance, so
    // their low bits depend on which of two nearly equal nodes was created first: structure only
    auto evBits = [&](const edge_value& ev) -> std::string { return S.label == 'T' ? std::string("*") : mv::evBitsExact(ev); };
    std::function<std::string(node_handle)> name = [&](node_handle p) -> std::string {
        char buf[64];
        if (p <= 0) {
            if (S.label == 'M') {
                rangeval rv; edge_value ev0; F->getValueForEdge(ev0, p, rv);
                return "t" + showVal(fromRangeval(rv));
            }
            snprintf(buf, sizeof buf, "T%ld", long(p)); return buf;
        }
        auto it = num.find(p);
        if (it != num.end()) { snprintf(buf, sizeof buf, "n%d", it->second); return buf; }
        int id = int(num.size()); num[p] = id;
        unpacked_node* U = unpacked_node::newFromNode(F, p, SPARSE_ONLY);
        std::vector<unsigned> idx; std::vector<node_handle> dn; std::vector<std::string> evs;
        for (unsigned z = 0; z < U->getSize(); z++) { idx.push_back(U->index(z)); dn.push_back(U->down(z)); evs.push_back(S.label != 'M' ? evBits(U->edgeval(z)) : ""); }
        int lvl = U->getLevel();
        unpacked_node::Recycle(U);
        std::ostringstream me;
        me << "n" << id << "@" << F->getVarByLevel(lvl) << "[";
        for (size_t z = 0; z < idx.size(); z++) me << idx[z] << ":" << evs[z] << name(dn[z]) << " ";
        me << "]\n";
        out << me.str();
        snprintf(buf, sizeof buf, "n%d", id); return buf;
    };
    std::string root = name(e.getNode());
    return "root " + (S.label != 'M' ? evBits(e.getEdgeValue()) : std::string()) + root + "\n" + out.str();
}

void countBelow(World& W, int f, const dd_edge& e, unsigned long& nodes, unsigned long& edges)
{
    forest* F = W.F[f];
    std::set<node_handle> seen;
    std::vector<node_handle> stack;
    nodes = edges = 0;
    if (e.getNode() > 0) { seen.insert(e.getNode()); stack.push_back(e.getNode()); }
    while (!stack.empty()) {
        node_handle p = stack.back(); stack.pop_back();
        nodes++;
        unpacked_node* U = unpacked_node::newFromNode(F, p, SPARSE_ONLY);
        edges += U->getSize();
        for (unsigned z = 0; z < U->getSize(); z++) {
            node_handle c = U->down(z);
            if (c > 0 && seen.insert(c).second) stack.push_back(c);
        }
        unpacked_node::Recycle(U);
    }
}

} // namespace mv
