// gen_life.cc -- generators for misuse (C16) and lifecycle (C17)
#include "gen.h"

namespace mv {

namespace {

const std::vector<std::string> BINOPS = {"UNION", "INTERSECTION", "DIFFERENCE", "CROSS", "PLUS", "MINUS", "MULTIPLY", "DIVIDE", "MODULO",
                                         "MAXIMUM", "MINIMUM", "EQUAL", "LESS_THAN"};

// forests of several kinds over `d`; returns their indexes
std::vector<int> mixedForests(Gen& G, int d, bool withRel)
{
    Rand& R = G.R;
    std::vector<int> fs;
    fs.push_back(G.addForest(G.forestSpec(d, false, 'B', 'M', "FQ"[R.below(2)], R.chance(40))));
    fs.push_back(G.addForest(G.forestSpec(d, false, 'I', 'M', "FQ"[R.below(2)], R.chance(40))));
    if (R.chance(60)) fs.push_back(G.addForest(G.forestSpec(d, false, 'I', 'P', "FQ"[R.below(2)], R.chance(40))));
    if (R.chance(40)) fs.push_back(G.addForest(G.forestSpec(d, false, 'B', 'M', "FQ"[R.below(2)], R.chance(40))));
    if (withRel) {
        fs.push_back(G.addForest(G.forestSpec(d, true, 'B', 'M', "FQI"[R.below(3)], R.chance(40))));
        if (R.chance(60)) fs.push_back(G.addForest(G.forestSpec(d, true, 'I', 'M', "FQI"[R.below(3)], R.chance(40))));
        if (R.chance(35)) fs.push_back(G.addForest(G.forestSpec(d, true, 'R', 'T', "FQI"[R.below(3)], R.chance(40))));    // EV*: errors with edge values
    }
    return fs;
}

void validWork(Gen& G, const std::vector<int>& pool, int n)
{
    static const std::vector<std::string> ops = {"UNION", "INTERSECTION", "DIFFERENCE", "COMPLEMENT", "PLUS", "MINUS", "MULTIPLY", "MAXIMUM", "MINIMUM",
                                                 "EQUAL", "LESS_THAN", "COPY", "CARD_L", "U_inc"};
    for (int i = 0; i < n; i++) {
        int r = int(G.R.below(100));
        if (r < 30) G.genFunction(G.freeSlot(14), pool[G.R.below(uint32_t(pool.size()))], 10);
        else if (r < 40) G.emitChurn(pool);
        else G.emitOp(ops, pool);
    }
}

} // namespace

Program genC16(Rand& R, int tier)
{
    Gen G(R, tier, "C16");
    G.randomCt(R.chance(50));
    int d0 = G.addDomain(true, 3, tier ? 60 : 30);
    int d1 = G.addDomain(false, 3, 64);
    std::vector<int> f0 = mixedForests(G, d0, true);
    std::vector<int> f1 = mixedForests(G, d1, false);
    std::vector<int> all = f0; all.insert(all.end(), f1.begin(), f1.end());
    // a twin of one multi-terminal forest of the first domain: same kind, later given another variable
    // order, so that the *only* mismatch of a call is the order (operands vs operands, operands vs result)
    int base = -1, twin = -1;
    if (R.chance(45)) {
        base = f0[R.below(2)];                  // the boolean or the integer MT set forest
        FSpec T = G.P.forests[size_t(base)];
        T.reorder = int(R.below(8)); T.swap = 0;
        twin = G.addForest(T);
    }
    bool twinReordered = false;
    for (int i = 0; i < 4; i++) G.genFunction(i, f0[R.below(uint32_t(f0.size()))], 10);
    for (int i = 4; i < 6; i++) G.genFunction(i, f1[R.below(uint32_t(f1.size()))], 8);
    validWork(G, f0, R.range(2, 8));
    int rounds = R.range(2, tier ? 12 : 6);
    for (int r = 0; r < rounds; r++) {
        int k = int(R.below(100));
        int a = G.pickLive(), b = G.pickLive();
        if (a < 0 || b < 0) { G.genFunction(G.freeSlot(14), all[R.below(uint32_t(all.size()))], 8); continue; }
        const std::string op = BINOPS[R.below(uint32_t(BINOPS.size()))];
        if (twin >= 0 && R.chance(40)) {
            const int K = int(G.P.domains[size_t(d0)].size());
            if (!twinReordered || R.chance(25)) {
                std::vector<int> perm;
                for (int v = 1; v <= K; v++) perm.push_back(v);
                for (int i = K; i > 1; i--) std::swap(perm[size_t(i - 1)], perm[R.below(uint32_t(i))]);
                bool ident = true;
                for (int v = 1; v <= K; v++) if (perm[size_t(v - 1)] != v) ident = false;
                if (ident && K >= 2) std::swap(perm[0], perm[1]);
                Step s{"reorder", Gen::num(twin)};
                for (int v : perm) s.push_back(Gen::num(v));
                G.emit(s);
                twinReordered = true;
            }
            int x = G.freeSlot(14); G.genFunction(x, base, 8);
            int y = G.freeSlot(14); G.genFunction(y, twin, 8);
            int x2 = G.pickLive(base), y2 = G.pickLive(twin);
            const bool isB = G.P.forests[size_t(base)].range == 'B';
            static const std::vector<std::string> bo = {"UNION", "INTERSECTION", "DIFFERENCE"}, io = {"PLUS", "MINUS", "MULTIPLY", "MAXIMUM", "MINIMUM"};
            const std::string oo = isB ? bo[R.below(3)] : io[R.below(5)];
            switch (R.below(4)) {
                case 0: G.emit({"misuse", "order", oo, Gen::num(x), Gen::num(y), Gen::num(R.chance(50) ? base : twin)}); break;
                case 1: G.emit({"misuse", "order", oo, Gen::num(x), Gen::num(x2), Gen::num(twin)}); break;
                case 2: G.emit({"misuse", "order", oo, Gen::num(y), Gen::num(y2), Gen::num(base)}); break;
                default: G.emit({"misuse", "orderun", isB && R.chance(50) ? "COMPLEMENT" : "COPY", Gen::num(R.chance(50) ? x : y), Gen::num(R.chance(50) ? base : twin)}); break;
            }
            // valid work inside the reordered forest as well
            if (R.chance(50)) G.emitOp(isB ? bo : io, {twin});
            validWork(G, f0, R.range(1, 3));
            continue;
        }
        if (R.chance(6)) {
            G.emit({"misuse", "doubleinit"});
            validWork(G, f0, R.range(2, 5));
            continue;
        }
        if (k < 30) G.emit({"misuse", "binop", op, Gen::num(a), Gen::num(b), Gen::num(all[R.below(uint32_t(all.size()))])});
        else if (k < 40) G.emit({"misuse", "unop", R.chance(50) ? "COMPLEMENT" : (R.chance(50) ? "DIST_INC" : "COPY"), Gen::num(a), Gen::num(all[R.below(uint32_t(all.size()))])});
        else if (k < 52) {
            // a valid pair (same forest), result / operand edge attached to some other forest
            int s1 = G.pickLive(); if (s1 < 0) continue;
            int s2 = G.pickLive(G.slots[size_t(s1)].f); if (s2 < 0) continue;
            const FSpec& S = G.P.forests[size_t(G.slots[size_t(s1)].f)];
            G.emit({"misuse", R.chance(60) ? "wrongresult" : "wrongoperand", S.range == 'B' ? "UNION" : "PLUS", Gen::num(s1), Gen::num(s2), Gen::num(all[R.below(uint32_t(all.size()))])});
        }
        else if (k < 60) G.emit({"misuse", "overflow", Gen::num(all[R.below(uint32_t(all.size()))]), R.chance(50) ? "pos" : "neg"});
        else if (k < 67) G.emit({"misuse", "badvar", Gen::num(all[R.below(uint32_t(all.size()))])});
        else if (k < 74) G.emit({"misuse", "wrongminterm", Gen::num(a), Gen::num(all[R.below(uint32_t(all.size()))])});
        else if (k < 79) G.emit({"misuse", "getelem", Gen::num(a)});
        else if (k < 92) {
            // a zero divisor met deep in the recursion: dividend nowhere zero, divisor zero at one full point
            int fi = -1;
            for (int f : f0) {
                const FSpec& Sf = G.P.forests[size_t(f)];
                const bool intSet = Sf.range == 'I' && !Sf.rel && Sf.label != 'X';
                const bool evStar = Sf.label == 'T';          // edge-valued: the result edge value is at stake too
                if ((intSet || evStar) && R.chance(60)) fi = f;
            }
            if (fi < 0) continue;
            int x = G.freeSlot(14);
            const FSpec& S = G.P.forests[size_t(fi)];
            const bool real = S.range == 'R';
            if (real && R.chance(30)) G.emit({"const", Gen::num(x), Gen::num(fi), "r0"});       // 0 / 0
            else G.genFunction(x, fi, 8, true);
            G.setLive(x, fi);
            int y = G.freeSlot(14);
            if (real && R.chance(40)) {
                // the constant zero as divisor
                G.emit({"const", Gen::num(y), Gen::num(fi), "r0"});
            } else {
                // divisor: non-zero default, value 0 at the last point (all variables at their maximum)
                Step m{"mt"};
                for (int s : G.P.domains[size_t(S.dom)]) m.push_back(Gen::num(s - 1));
                if (S.rel) for (int s : G.P.domains[size_t(S.dom)]) m.push_back(Gen::num(s - 1));
                m.push_back(real ? "r0" : "0");
                G.emit(m);
                G.emit({"coll", Gen::num(y), Gen::num(fi), "min", (real ? "r" : "") + Gen::num(R.range(1, 7))});
            }
            G.setLive(y, fi);
            int z = G.freeSlot(14);
            // (the result edge is fresh, an operand, or an edge that already holds a function: a rejected
            // call must leave it as it was)
            Step dz{"bin", R.chance(70) ? "DIVIDE" : "MODULO", Gen::num(x), Gen::num(y), Gen::num(z), Gen::num(fi)};
            const int how = int(R.below(4));
            if (how == 1) dz.push_back("used"); else if (how == 2) dz.push_back("ia"); else if (how == 3) dz.push_back("ib");
            G.emit(dz);
        }
        else if (k < 96) { G.emit({"iter", Gen::num(a)}); }
        else {
            // destroy a forest of the second domain and use its edges
            int f = f1[R.below(uint32_t(f1.size()))];
            int z = G.pickLive(f);
            G.emit({"destroyf", Gen::num(f)});
            for (auto& s : G.slots) if (s.live && s.f == f) s.live = false;
            if (z >= 0) G.emit({"misuse", "usedead", Gen::num(z), Gen::num(a)});
        }
        validWork(G, f0, R.range(1, 3));
    }
    return G.P;
}

Program genC17(Rand& R, int tier)
{
    Gen G(R, tier, "C17");
    G.randomCt(true);
    int nd = R.range(1, 3);
    std::vector<std::vector<int>> byDom;
    std::vector<int> all;
    for (int d = 0; d < nd; d++) {
        int dd = G.addDomain(R.chance(40), 3, 40);
        const bool rel = false;
        (void) rel;
        std::vector<int> fs;
        int nf = R.range(1, 3);
        for (int i = 0; i < nf; i++) {
            const Gen::Kind k = Gen::kinds()[R.below(3)];     // MT sets: bool / int / real
            fs.push_back(G.addForest(G.forestSpec(dd, false, k.range, k.label, "FQ"[R.below(2)], R.chance(50))));
        }
        if (R.chance(50)) fs.push_back(G.addForest(G.forestSpec(dd, true, 'B', 'M', "FQI"[R.below(3)], R.chance(50))));
        byDom.push_back(fs);
        all.insert(all.end(), fs.begin(), fs.end());
    }
    std::vector<bool> alive(G.P.forests.size(), true);
    std::vector<bool> domAlive(size_t(nd), true);
    auto survivors = [&]() { std::vector<int> v; for (size_t f = 0; f < alive.size(); f++) if (alive[f]) v.push_back(int(f)); return v; };
    auto work = [&](int n) {
        std::vector<int> pool = survivors();
        if (pool.empty()) return;
        for (int i = 0; i < n; i++) {
            int r = int(R.below(100));
            if (r < 35) G.genFunction(G.freeSlot(16), pool[R.below(uint32_t(pool.size()))], 8);
            else if (r < 45) G.emitChurn(pool);
            else G.emitOp({"UNION", "INTERSECTION", "COMPLEMENT", "PLUS", "MAXIMUM", "COPY", "COPY", "EQUAL", "CARD_L"}, pool);      // COPY / EQUAL span forests
        }
    };
    for (size_t f = 0; f < alive.size(); f++) G.genFunction(int(f) % 12, int(f), 8);
    work(R.range(3, 10));
    int events = R.range(2, tier ? 10 : 6);
    for (int e = 0; e < events; e++) {
        int k = int(R.below(100));
        std::vector<int> pool = survivors();
        if (k < 45 && !pool.empty()) {
            int f = pool[R.below(uint32_t(pool.size()))];
            int z = G.pickLive(f);
            int o = -1;
            for (size_t s = 0; s < G.slots.size(); s++) if (G.slots[s].live && G.slots[s].f != f && alive[size_t(G.slots[s].f)]) o = int(s);
            if (R.chance(40) && z >= 0) G.emit({"iter", Gen::num(z)});
            G.emit({"destroyf", Gen::num(f)});
            alive[size_t(f)] = false;
            for (auto& s : G.slots) if (s.live && s.f == f) s.live = false;
            if (z >= 0) G.emit({"misuse", "usedead", Gen::num(z), Gen::num(o)});
        } else if (k < 60) {
            int d = int(R.below(uint32_t(nd)));
            if (!domAlive[size_t(d)]) continue;
            G.emit({"destroyd", Gen::num(d)});
            domAlive[size_t(d)] = false;
            for (int f : byDom[size_t(d)]) { alive[size_t(f)] = false; for (auto& s : G.slots) if (s.live && s.f == f) s.live = false; }
        } else if (k < 80) {
            // a new forest with the spec of an existing one (the interpreter appends it to its forest list)
            int t = int(R.below(uint32_t(G.P.forests.size())));
            if (!domAlive[size_t(G.P.forests[size_t(t)].dom)]) continue;
            // (only its identifier is checked; later generated steps do not use it)
            G.emit({"newforest", Gen::num(t)});
        } else if (k < 90) {
            G.emit({"reinit", Gen::num(int(R.below(4))), Gen::num(int(R.below(3))), R.chance(50) ? "0" : "4096", Gen::num(int(R.below(2)))});
            for (auto& s : G.slots) s.live = false;
            alive.assign(G.P.forests.size(), true);
            domAlive.assign(size_t(nd), true);
            for (size_t f = 0; f < G.P.forests.size() && f < 6; f++) G.genFunction(int(f), int(f), 8);
        } else {
            G.emit({"audit"});
        }
        work(R.range(1, 6));
    }
    return G.P;
}

} // namespace mv
