#!/usr/bin/env python3
"""Driver of the MEDDLY property checks.

  verif.py check Cxx [--tier quick|thorough]     build -> corpus replay -> campaign -> shrink -> evidence
  verif.py replay FILE [--property Cxx]          run one saved program
  verif.py shrink FILE [-o OUT]                  delta-debug a failing program
  verif.py build                                 build only

Exit status of `check`: 0 = property held on everything explored (known findings are printed
as KNOWN-FINDING lines), 1 = a violation that is not a listed finding (VIOLATION line printed).
"""
import hashlib
import json
import os
import re
import shutil
import subprocess
import sys
import tempfile
import time

VERIF = os.path.dirname(os.path.abspath(__file__))
sys.path.insert(0, os.path.join(VERIF, "tools"))
import vbuild  # noqa: E402

ENV = dict(os.environ)
ENV["ASAN_OPTIONS"] = "detect_leaks=0:quarantine_size_mb=16:allocator_release_to_os_interval_ms=-1:abort_on_error=0:exitcode=86:allocator_may_return_null=0:detect_stack_use_after_return=0"
ENV["UBSAN_OPTIONS"] = "print_stacktrace=1:halt_on_error=1:exitcode=86"
NCPU = min(16, os.cpu_count() or 4)

# per-property budgets: (cases per worker quick, cases per worker thorough)
BUDGET = {
    "C01": (1500, 60000), "C02": (900, 40000), "C03": (2500, 120000), "C04": (1500, 60000),
    "C05": (1500, 60000), "C06": (250, 20000), "C07": (220, 25000), "C08": (600, 25000),
    "C09": (1200, 50000), "C10": (1500, 60000), "C11": (1500, 60000), "C12": (70, 6000),
    "C13": (500, 20000), "C14": (1000, 40000), "C15": (1500, 60000), "C16": (1200, 50000),
    "C17": (600, 25000), "C18": (400, 4000), "C19": (1, 1), "C20": (500, 20000),
}
QUICK_SECONDS = 75          # wall-clock cap of a quick campaign (inconclusive past it, never a violation)
THOROUGH_SECONDS = int(os.environ.get("MVH_THOROUGH_SECONDS", "420"))
FUZZ_SECONDS = int(os.environ.get("MVH_FUZZ_SECONDS", "150"))      # coverage-guided stage of the thorough tier
NO_FUZZ = ("C18", "C19")    # standalone checks without the program interpreter


def mvh(bindir):
    return os.path.join(bindir, "mvh")


def run_replay(bindir, path, prop=None, timeout=120):
    """returns (status, tag, text): status in ok|fail|crash|timeout|badfile"""
    cmd = [mvh(bindir), "replay", path]
    if prop:
        cmd += ["--property", prop]
    try:
        r = subprocess.run(cmd, stdout=subprocess.PIPE, stderr=subprocess.PIPE, env=ENV, timeout=timeout)
    except subprocess.TimeoutExpired:
        return "timeout", "timeout", ""
    out = r.stdout.decode("utf-8", "replace")
    err = r.stderr.decode("utf-8", "replace")
    if r.returncode == 0:
        return "ok", "", out
    if r.returncode == 2:
        m = re.search(r"^FAIL (\S+) :: (.*)$", out, re.M)
        return "fail", (m.group(1) if m else "fail"), (m.group(0) if m else out[-400:])
    if r.returncode == 65:
        return "badfile", "badfile", out
    return "crash", crash_signature(err, r.returncode), err[-3000:]


def crash_signature(err, rc):
    m = re.search(r"SUMMARY: (\w+): (\S+) (\S+)(?: in (\S+))?", err)
    if m:
        kind = m.group(2)
        where = m.group(4) or m.group(3)
        where = re.sub(r"^.*/", "", where)
        where = re.sub(r":\d+:\d+$", "", where)
        where = re.sub(r":\d+$", "", where)
        return "sanitizer:%s:%s" % (kind, where)
    m = re.search(r"runtime error: ([^\n]*)", err)
    if m:
        return "ubsan:" + re.sub(r"0x[0-9a-f]+|\d+", "N", m.group(1))[:60].replace(" ", "_")
    return "crash:rc%d" % rc


# ------------------------------------------------------------------------------------------
# shrinking (out-of-process delta debugging on program lines)
# ------------------------------------------------------------------------------------------
def split_program(txt):
    head, steps = [], []
    for line in txt.splitlines():
        w = line.split()
        if not w:
            continue
        if w[0] in ("mvh", "property", "ct", "domain", "forest"):
            head.append(line)
        else:
            steps.append(line)
    return head, steps


def shrink(bindir, path, prop=None, want_tag=None, out_path=None, budget_s=240):
    txt = open(path).read()
    head, steps = split_program(txt)
    tmp = tempfile.mkdtemp(prefix="mvshrink-", dir=os.path.join(VERIF, "build"))
    t0 = time.time()
    cand = os.path.join(tmp, "cand.mvh")

    def fails(h, s):
        with open(cand, "w") as f:
            f.write("\n".join(h + s) + "\n")
        st, tag, _ = run_replay(bindir, cand, prop, timeout=60)
        if st in ("fail", "crash"):
            return want_tag is None or tag == want_tag
        return False

    if want_tag is None:
        st, want_tag, _ = run_replay(bindir, path, prop)
        if st not in ("fail", "crash"):
            shutil.rmtree(tmp, ignore_errors=True)
            return None, None
    # 1. truncate after the failing step (cheap win)
    # 2. ddmin over step lines
    n = 2
    while len(steps) >= 2 and time.time() - t0 < budget_s:
        chunk = max(1, len(steps) // n)
        reduced = False
        i = 0
        while i < len(steps):
            trial = steps[:i] + steps[i + chunk:]
            if trial != steps and fails(head, trial):
                steps = trial
                reduced = True
                n = max(n - 1, 2)
            else:
                i += chunk
            if time.time() - t0 > budget_s:
                break
        if not reduced:
            if chunk == 1:
                break
            n = min(n * 2, len(steps))
    # 3. simplify the head: default policies, default CT, drop unused forests is not possible
    #    (indexes), but policies can be reset
    for i, line in enumerate(list(head)):
        if line.startswith("forest "):
            simp = re.sub(r"stor=\d", "stor=3", line)
            simp = re.sub(r"mm=\d", "mm=1", simp)
            simp = re.sub(r"del=\w", "del=O", simp)
            if simp != line:
                h2 = head[:i] + [simp] + head[i + 1:]
                if fails(h2, steps):
                    head = h2
        if line.startswith("ct ") and line != "ct 1 1 0 0":
            h2 = head[:i] + ["ct 1 1 0 0"] + head[i + 1:]
            if fails(h2, steps):
                head = h2
    # 4. shrink domain sizes (keeps minterm tokens valid only if they stay in range: the
    #    interpreter skips minterms that no longer fit, so any candidate is a sound program)
    for i, line in enumerate(list(head)):
        if line.startswith("domain "):
            sizes = [int(x) for x in line.split()[1:]]
            changed = True
            while changed and time.time() - t0 < budget_s:
                changed = False
                for k in range(len(sizes)):
                    if sizes[k] > 2:
                        s2 = list(sizes)
                        s2[k] -= 1
                        h2 = head[:i] + ["domain " + " ".join(map(str, s2))] + head[i + 1:]
                        if fails(h2, steps):
                            sizes = s2
                            head = h2
                            changed = True
    final = "\n".join(head + steps) + "\n"
    shutil.rmtree(tmp, ignore_errors=True)
    if out_path:
        with open(out_path, "w") as f:
            f.write(final)
    return final, want_tag


# ------------------------------------------------------------------------------------------
# known findings
# ------------------------------------------------------------------------------------------
def load_findings():
    p = os.path.join(VERIF, "known_findings.json")
    try:
        return json.load(open(p))
    except (OSError, ValueError):
        return {"findings": [], "fixed": []}


def match_finding(prop, tag, program_text, detail):
    """a finding matches when property, oracle tag and every `requires` regex (searched in the
    shrunk program text or the failure message) agree"""
    for f in load_findings().get("findings", []):
        if f.get("property") != prop:
            continue
        if f.get("tag") and not re.search(f["tag"], tag):
            continue
        ok = True
        for rx in f.get("requires", []):
            if not re.search(rx, program_text, re.M) and not re.search(rx, detail or "", re.M):
                ok = False
                break
        for rx in f.get("forbids", []):
            if re.search(rx, program_text, re.M):
                ok = False
                break
        if ok:
            return f
    return None


# ------------------------------------------------------------------------------------------
# campaign
# ------------------------------------------------------------------------------------------
def campaign(bindir, prop, tier, seed, work, cases, seconds, workers=NCPU):
    procs = []
    for w in range(workers):
        cmd = [mvh(bindir), "gen", "--property", prop, "--seed", str(seed), "--cases", str(cases),
               "--worker", str(w), "--workers", str(workers), "--out", work, "--tier", tier,
               "--seconds", str(seconds)]
        procs.append(subprocess.Popen(cmd, stdout=subprocess.PIPE, stderr=subprocess.PIPE, env=ENV))
    results = []
    for w, p in enumerate(procs):
        try:
            out, err = p.communicate(timeout=seconds + 300)
            rc = p.returncode
        except subprocess.TimeoutExpired:
            p.kill()
            out, err = p.communicate()
            rc = -999
        results.append((w, rc, out.decode("utf-8", "replace"), err.decode("utf-8", "replace")))
    return results


def merge_stats(work, workers):
    tot = {"cases": 0, "steps": 0, "nontrivial": 0, "labels": {}, "samples": [], "wall": 0.0}
    hashes = set()
    extra_distinct = 0
    for w in range(workers):
        p = os.path.join(work, "w%d.json" % w)
        try:
            d = json.load(open(p))
        except (OSError, ValueError):
            continue
        tot["cases"] += d["cases"]
        tot["steps"] += d["steps"]
        tot["nontrivial"] += d["nontrivial"]
        tot["wall"] = max(tot["wall"], d["wall_s"])
        for k, v in d["labels"].items():
            tot["labels"][k] = tot["labels"].get(k, 0) + v
        hashes.update(d["hashes"])
        extra_distinct += d.get("count_distinct", 0)
        if len(tot["samples"]) < 4:
            tot["samples"].extend(d["samples"][:1])
    tot["distinct_nontrivial"] = len(hashes) + extra_distinct
    return tot


def rule_text(bindir, prop):
    r = subprocess.run([mvh(bindir), "rule", "--property", prop], stdout=subprocess.PIPE, env=ENV)
    return r.stdout.decode().strip()


def check(prop, tier):
    t0 = time.time()
    seed = int(os.environ.get("VERIF_SEED", "1") or "1")
    tier = os.environ.get("VERIF_TIER", tier) if tier is None else tier
    bindir = vbuild.build()
    work = os.path.join(VERIF, "build", "work", "%s-%s-%d" % (prop, tier, os.getpid()))
    shutil.rmtree(work, ignore_errors=True)
    os.makedirs(work)
    corpus = os.path.join(VERIF, "corpus", prop)
    violations = []
    known_lines = []
    inconclusive = []
    replayed = 0

    def judge(path, status, tag, detail, origin):
        """classify one failing program: known finding or violation"""
        txt = open(path).read()
        f = match_finding(prop, tag, txt, detail)
        if f:
            line = "KNOWN-FINDING: property=%s %s" % (prop, f["what"])
            if line not in known_lines:
                known_lines.append(line)
            return
        violations.append((path, tag, detail, origin))

    # 1. replay the corpus (regression inputs, known findings, shrunk earlier failures)
    if os.path.isdir(corpus):
        for name in sorted(os.listdir(corpus)):
            if not name.endswith(".mvh"):
                continue
            path = os.path.join(corpus, name)
            st, tag, detail = run_replay(bindir, path, prop)
            replayed += 1
            if st in ("fail", "crash"):
                judge(path, st, tag, detail, "corpus")
            elif st == "timeout":
                inconclusive.append("corpus %s: timeout" % name)

    # 2. generated campaign
    q, th = BUDGET.get(prop, (500, 20000))
    cases = q if tier == "quick" else th
    seconds = QUICK_SECONDS if tier == "quick" else THOROUGH_SECONDS
    results = campaign(bindir, prop, tier, seed, work, cases, seconds)
    stats = merge_stats(work, NCPU)
    aborted_cases = 0       # cases that ended a worker (its counters are lost when a sanitizer aborts the process)
    for w, rc, out, err in results:
        if rc == 0:
            continue
        if not os.path.exists(os.path.join(work, "w%d.json" % w)):
            aborted_cases += 1
        if rc == 87:
            # the per-case watchdog fired: keep the case for triage, no verdict
            cur = os.path.join(work, "w%d.cur.mvh" % w)
            keep = os.path.join(VERIF, "build", "timeouts")
            os.makedirs(keep, exist_ok=True)
            if os.path.exists(cur):
                shutil.copy(cur, os.path.join(keep, "%s-w%d-%d.mvh" % (prop, w, os.getpid())))
            inconclusive.append("worker %d: a case did not finish within the per-case time limit (kept under build/timeouts)" % w)
            continue
        src = None
        if rc == 2:
            src = os.path.join(work, "fail-w%d.mvh" % w)
        else:
            cur = os.path.join(work, "w%d.cur.mvh" % w)
            if os.path.exists(cur):
                src = cur
        if not src or not os.path.exists(src):
            inconclusive.append("worker %d ended with status %s without a saved case" % (w, rc))
            continue
        st, tag, detail = run_replay(bindir, src, prop)
        if st == "timeout":
            inconclusive.append("worker %d: case timed out on replay" % w)
            continue
        if st not in ("fail", "crash"):
            inconclusive.append("worker %d: failure did not reproduce on replay (%s)" % (w, st))
            continue
        small = os.path.join(work, "shrunk-w%d.mvh" % w)
        final, tag2 = shrink(bindir, src, prop, tag, small, budget_s=120 if tier == "quick" else 300)
        if final is None:
            inconclusive.append("worker %d: shrink lost the failure" % w)
            continue
        # replay 3x
        fails = 0
        for _ in range(3):
            st2, tag3, detail2 = run_replay(bindir, small, prop)
            if st2 in ("fail", "crash"):
                fails += 1
                detail = detail2
        if fails < 2:
            inconclusive.append("worker %d: flaky (%d/3 replays failed)" % (w, fails))
            continue
        # store under corpus-like name in work; promoted to corpus/ only for violations
        h = hashlib.sha256(final.encode()).hexdigest()[:12]
        dest = os.path.join(work, "fail-%s.mvh" % h)
        shutil.copy(small, dest)
        judge(dest, st, tag, detail, "campaign")

    # 2b. coverage-guided stage (thorough tier): libFuzzer drives the same generators through a
    # byte-string decoder; only saved failing programs / crash artifacts count
    fuzz_stats = {"execs": 0, "nontrivial": 0, "seconds": 0, "workers": 0}
    if tier == "thorough" and prop not in NO_FUZZ:
        fz = os.path.join(bindir, "fz_mvh")
        fdir = os.path.join(work, "fuzz")
        os.makedirs(fdir)
        fenv = dict(ENV)
        fenv["MVH_FUZZ_PROP"] = prop
        fenv["MVH_FUZZ_OUT"] = fdir
        procs = []
        for w in range(NCPU):
            cdir = os.path.join(fdir, "corpus%d" % w)
            os.makedirs(cdir)
            # starting corpus: byte strings long enough to feed every generator decision (an empty
            # corpus decodes to the smallest program only); half the workers start empty-ish
            import random
            rr = random.Random(seed * 1000 + w)
            for k in range(2 if w % 2 else 12):
                with open(os.path.join(cdir, "seed%d" % k), "wb") as f:
                    f.write(bytes(rr.getrandbits(8) for _ in range(rr.choice([64, 512, 2048, 4096]))))
            cmd = [fz, "-max_total_time=%d" % FUZZ_SECONDS, "-max_len=8192", "-seed=%d" % (seed * 1000 + w + 1),
                   "-artifact_prefix=%s/w%d-" % (fdir, w), "-timeout=120", "-rss_limit_mb=4096", cdir]
            procs.append(subprocess.Popen(cmd, stdout=subprocess.DEVNULL, stderr=subprocess.DEVNULL, env=fenv, cwd=fdir))
        for p in procs:
            try:
                p.wait(timeout=FUZZ_SECONDS + 300)
            except subprocess.TimeoutExpired:
                p.kill()
        fuzz_stats["seconds"] = FUZZ_SECONDS
        fuzz_stats["workers"] = NCPU
        for name in os.listdir(fdir):
            if name.startswith("fuzz-stats-"):
                try:
                    a, b = open(os.path.join(fdir, name)).read().split()
                    fuzz_stats["execs"] += int(a)
                    fuzz_stats["nontrivial"] += int(b)
                except (OSError, ValueError):
                    pass
        cands = []
        for name in sorted(os.listdir(fdir)):
            pth = os.path.join(fdir, name)
            if name.startswith("fuzz-fail-") and name.endswith(".mvh"):
                cands.append(pth)
            elif re.match(r"w\d+-(crash|leak)-", name):
                # a sanitizer abort inside the library: decode the bytes into the program they stand for
                r = subprocess.run([mvh(bindir), "decode", pth, "--property", prop], stdout=subprocess.PIPE, env=ENV)
                dec = pth + ".mvh"
                with open(dec, "wb") as f:
                    f.write(r.stdout)
                cands.append(dec)
        seen_tags = set()
        for src in cands[:24]:
            st, tag, detail = run_replay(bindir, src, prop)
            if st not in ("fail", "crash"):
                inconclusive.append("fuzz: %s did not reproduce on replay (%s)" % (os.path.basename(src), st))
                continue
            if tag in seen_tags:
                continue
            seen_tags.add(tag)
            small = src + ".min"
            final, _ = shrink(bindir, src, prop, tag, small, budget_s=200)
            if final is None:
                continue
            h = hashlib.sha256(final.encode()).hexdigest()[:12]
            dest = os.path.join(work, "fail-%s.mvh" % h)
            shutil.copy(small, dest)
            judge(dest, st, tag, detail, "campaign")

    # promote violations to a stable replay path
    out_violations = []
    for path, tag, detail, origin in violations:
        if origin == "campaign":
            os.makedirs(os.path.join(VERIF, "failures", prop), exist_ok=True)
            dest = os.path.join(VERIF, "failures", prop, os.path.basename(path))
            shutil.copy(path, dest)
            path = dest
        if not any(p == path and t == tag for p, t, _ in out_violations):
            out_violations.append((path, tag, detail))

    # 3. evidence
    labels = stats["labels"]
    cov = {
        "evaluations": int(stats["cases"] + aborted_cases + replayed + fuzz_stats["execs"]),
        "distinct_nontrivial": int(stats["distinct_nontrivial"]),
        "rule": rule_text(bindir, prop),
        "samples": stats["samples"][:3] if stats["samples"] else ["(no non-trivial sample recorded)"],
        "generated_cases": stats["cases"],
        "generated_steps": stats["steps"],
        "corpus_replayed": replayed,
        "nontrivial_cases": stats["nontrivial"],
        "labels": {k: v for k, v in sorted(labels.items()) if not k.startswith("cases_with.")},
        "cases_with_label": {k[11:]: v for k, v in sorted(labels.items()) if k.startswith("cases_with.")},
        "fuzzing": fuzz_stats,
        "inconclusive": inconclusive,
        "known_findings_reported": known_lines,
        "violations": [{"replay": p, "tag": t, "detail": d[-600:]} for p, t, d in out_violations],
        "exhaustive": False,
    }
    ev = {
        "property_id": prop, "tier": tier, "seed": seed, "level": "exploration", "coverage": cov,
        "assumptions": [
            "the harness' value-table model and scalar reference semantics are right (they are plain loops, independent of MEDDLY)",
            "sanitizer build (ASan+UBSan minus shift-base/alignment/pointer-overflow) of /repo's working tree, hooks enabled with -DMEDDLY_VERIF",
            "held on everything explored: no claim beyond the generated sizes (see DESIGN.md section 8)",
        ],
        "wall_s": round(time.time() - t0, 2),
        "violations": len(out_violations),
    }
    # MVH_EVIDENCE_DIR: only tools/seeded.py sets it, so that runs against a deliberately broken tree
    # do not replace the evidence of the real tree
    evdir = os.environ.get("MVH_EVIDENCE_DIR") or os.path.join(VERIF, "evidence")
    os.makedirs(evdir, exist_ok=True)
    with open(os.path.join(evdir, prop + ".json"), "w") as f:
        json.dump(ev, f, indent=1)
    shutil.rmtree(work, ignore_errors=True)

    for line in known_lines:
        print(line)
    for msg in inconclusive:
        print("INCONCLUSIVE: property=%s %s" % (prop, msg))
    print("%s %s: %d generated cases (%d distinct non-trivial), %d corpus replays, %.1fs"
          % (prop, tier, stats["cases"], stats["distinct_nontrivial"], replayed, time.time() - t0))
    if out_violations:
        for p, t, d in out_violations:
            print("  failing oracle: %s  %s" % (t, d.strip().splitlines()[-1][:300] if d.strip() else ""))
            print("VIOLATION property=%s replay=%s" % (prop, p))
        return 1
    return 0


def main():
    a = sys.argv[1:]
    if not a:
        print(__doc__)
        return 64
    if a[0] == "build":
        print(vbuild.build(quiet=False))
        return 0
    if a[0] == "check":
        prop = a[1]
        tier = "quick"
        if "--tier" in a:
            tier = a[a.index("--tier") + 1]
        return check(prop, tier)
    if a[0] == "hunt":
        # development aid: run a campaign, shrink every failing worker's case, group by tag
        prop = a[1]
        tier = a[a.index("--tier") + 1] if "--tier" in a else "quick"
        cases = int(a[a.index("--cases") + 1]) if "--cases" in a else 400
        seed = int(os.environ.get("VERIF_SEED", "1"))
        bindir = vbuild.build()
        work = os.path.join(VERIF, "build", "work", "hunt-%s-%d" % (prop, os.getpid()))
        os.makedirs(work)
        res = campaign(bindir, prop, tier, seed, work, cases, 600)
        stats = merge_stats(work, NCPU)
        print("cases", stats["cases"], "nontrivial", stats["nontrivial"], "wall", stats["wall"])
        cw = {k[11:]: v for k, v in stats["labels"].items() if k.startswith("cases_with.")}
        keep = [k for k in cw if not k.startswith(("policy.", "forest.", "K"))]
        print("cases_with:", ", ".join("%s=%d" % (k, cw[k]) for k in sorted(keep)))
        seen = {}
        for w, rc, out, err in res:
            if rc == 0:
                continue
            if rc == 87:
                print("worker", w, "TIMEOUT case:", os.path.join(work, "w%d.cur.mvh" % w))
                continue
            src = os.path.join(work, "fail-w%d.mvh" % w) if rc == 2 else os.path.join(work, "w%d.cur.mvh" % w)
            if not os.path.exists(src):
                print("worker", w, "rc", rc, "no case;", err[-300:])
                continue
            st, tag, detail = run_replay(bindir, src, prop)
            if tag in seen:
                seen[tag][1] += 1
                continue
            small = os.path.join(work, "min-w%d.mvh" % w)
            final, _ = shrink(bindir, src, prop, tag, small, budget_s=90)
            seen[tag] = [small, 1, detail]
        for tag, (small, n, detail) in seen.items():
            print("=" * 70)
            print("TAG", tag, "workers", n)
            print(detail.strip()[-700:])
            print(open(small).read() if os.path.exists(small) else "(no shrunk file)")
        print("work dir:", work)
        return 0
    if a[0] == "replay":
        bindir = vbuild.build()
        prop = a[a.index("--property") + 1] if "--property" in a else None
        st, tag, detail = run_replay(bindir, a[1], prop)
        print(st, tag)
        print(detail)
        return 0 if st == "ok" else 1
    if a[0] == "shrink":
        bindir = vbuild.build()
        prop = a[a.index("--property") + 1] if "--property" in a else None
        out = a[a.index("-o") + 1] if "-o" in a else a[1] + ".min"
        final, tag = shrink(bindir, a[1], prop, None, out)
        if final is None:
            print("does not fail")
            return 1
        print("tag:", tag)
        print(final)
        return 0
    print(__doc__)
    return 64


if __name__ == "__main__":
    sys.exit(main())
